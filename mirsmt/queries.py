"""E3 queries (DESIGN.md §3.5): each decides one piece of glue from the MIR of /repo's current tree.

A query returns dict(name, property, verdict in {'holds','violated','inconclusive'}, detail, functions, witness).
`witness` names a native public-API/in-crate witness program (verif-replay --witness <id>) that must
reproduce a 'violated' verdict against the real build before it is reported."""
import os as _os
REPO = _os.environ.get("VERIF_REPO_SRC", "/repo")  # scratch trees during development only
THOROUGH = _os.environ.get("VERIF_E3_TIER", "quick") == "thorough"  # larger unrolling bounds
import re

from mirsmt import Exec, Smt, solve, mk_deref, mk_v2b


def find_body(bodies, pattern, sig=None):
    hits = []
    for name, bs in bodies.items():
        if re.search(pattern, name):
            for b in bs:
                if sig is None or re.search(sig, b.args + " -> " + b.ret):
                    hits.append(b)
    return hits


def q_c03_reconcile_validation(bodies):
    """C03: the validate callback that `Replica::sync_process_message` hands to the reconciliation
    engine returns true only for entries that pass `validate_entry` (namespace, signatures, future
    bound) AND are well-formed w.r.t. emptiness (`validate_empty`) — i.e. the reconciliation
    path applies the same checks as `insert_remote_entry`."""
    name = "c03_reconcile_validation"
    hits = find_body(bodies, r"sync_process_message::\{closure#0\}::\{closure#0\}$", r"-> bool")
    if len(hits) != 1:
        return dict(name=name, property="C03", verdict="inconclusive", detail="validate closure not found uniquely (%d candidates)" % len(hits), functions=[])
    body = hits[0]
    smt = Smt()
    smt.fun("is_ok", 1, "Bool")
    smt.fun("wf", 1, "Bool")           # emptiness well-formedness of an Entry value
    smt.fun("fld_1", 1)                 # SignedEntry { signature, entry }: field 1 is the Entry
    smt.fun("validated", 5, "Bool")     # validate_entry(now, store, ns, entry, origin) is Ok
    called = []

    def result_with(ok_term):
        r = smt.const("res")
        smt.asserts.append("(= (is_ok %s) %s)" % (r, ok_term))
        return r

    def m_validate_entry(ex, vals):
        called.append(("validate_entry", vals))
        return result_with("(validated %s)" % " ".join(vals))

    def m_is_ok(ex, vals):
        return "(b2v (is_ok %s))" % mk_deref(vals[0])

    def m_signed_validate_empty(ex, vals):
        called.append(("validate_empty", vals))
        return result_with("(wf (fld_1 %s))" % mk_deref(vals[0]))

    def m_entry_validate_empty(ex, vals):
        called.append(("validate_empty", vals))
        return result_with("(wf %s)" % mk_deref(vals[0]))

    def m_entry_accessor(ex, vals):
        return "(ref (fld_1 %s))" % mk_deref(vals[0])

    models = {
        r"^validate_entry": m_validate_entry,
        r"Result::<.*>::is_ok$": m_is_ok,
        r"Result::<.*>::is_err$": lambda ex, v: "(b2v (not (is_ok %s)))" % mk_deref(v[0]),
        r"SignedEntry::validate_empty$|sync::<impl at src/sync.rs:7\d\d.*>::validate_empty$": m_signed_validate_empty,
        r"Entry::validate_empty$|sync::<impl at src/sync.rs:9\d\d.*>::validate_empty$": m_entry_validate_empty,
        r"SignedEntry::entry$|::entry$": m_entry_accessor,
    }
    ex = Exec(bodies, smt, models=models)
    args = [smt.const("closure_env"), smt.const("store"), smt.const("entry_ref"), smt.const("content_status")]
    try:
        paths = ex.run(body, args)
    except ValueError as e:
        return dict(name=name, property="C03", verdict="inconclusive", detail=str(e), functions=[body.name])
    accept = "(or false %s)" % " ".join("(and true %s %s)" % (" ".join(pc), mk_v2b(ret)) for pc, ret, _c, _e in paths)
    entry = mk_deref(args[2])
    results = {}
    # G1: accepted => validate_entry(.., this entry, ..) returned Ok, with the captured clock/namespace
    ve_calls = [v for (n, v) in called if n == "validate_entry"]
    if not ve_calls:
        g1 = "violated"
        d1 = "the closure never calls validate_entry"
    else:
        v = ve_calls[0]
        entry_arg_ok = "(= %s %s)" % (v[3], args[2])
        goal = "(and %s (not (and (validated %s) %s)))" % (accept, " ".join(v), entry_arg_ok)
        verdict, detail = solve(smt.script(goal))
        g1 = {"unsat": "holds", "sat": "violated"}.get(verdict, "inconclusive")
        d1 = "accepted and not(validate_entry ok for this entry): %s" % verdict
    # G2: accepted => the entry is well-formed w.r.t. emptiness
    goal = "(and %s (not (wf (fld_1 %s))))" % (accept, entry)
    verdict, detail = solve(smt.script(goal))
    g2 = {"unsat": "holds", "sat": "violated"}.get(verdict, "inconclusive")
    d2 = "accepted and not(validate_empty ok): %s" % verdict
    # G3 (MIR data flow): the clock value validate_entry compares the timestamp with is the unmodified result of
    # `system_time_now()` on both ingress paths (validate_entry itself adds the allowed skew: the Kani harness
    # validate_entry_accepts); a hoisted "latest acceptable timestamp" would add it twice
    g3, d3 = _c03_clock_flow(bodies, body, ve_calls)
    verdicts = [g1, g2, g3]
    overall = "violated" if "violated" in verdicts else ("inconclusive" if "inconclusive" in verdicts else "holds")
    return dict(name=name, property="C03", verdict=overall,
                detail="G1 (validate_entry gates acceptance): %s [%s]; G2 (validate_empty gates acceptance): %s [%s]; G3 (the clock handed to validate_entry is system_time_now() itself, on both paths): %s [%s]; paths=%d" % (g1, d1, g2, d2, g3, d3, len(paths)),
                functions=[body.name, "validate_entry (uninterpreted: decided by the Kani harness validate_entry_accepts)",
                           "validate_empty (uninterpreted: decided by the Kani harness validate_empty_table)"],
                queries=2, cases=len(paths) + 2, witness="d3,c03clock",
                check_message=("a reconciliation message only delivers entries that pass validate_entry and validate_empty" if g3 == "holds" or "violated" in (g1, g2)
                               else "entries are compared with the local clock plus the allowed skew exactly once, on both ingress paths"))


def _c03_defs(body, place):
    """all statements / call terminators of `body` that assign `place` (textual)"""
    out = []
    pat = re.escape(place) + " = "
    for blk in body.blocks.values():
        for st in blk:
            if re.match("^" + pat, st):
                out.append(st)
    return out


def _c03_trace_clock(body, place, depth=0):
    """is `place` (a local or a coroutine state field) assigned exactly once, from `system_time_now()` — possibly through
    plain copies / moves / references?  -> (True | False | None, explanation)"""
    if depth > 6:
        return None, "copy chain too long"
    defs = _c03_defs(body, place)
    mproj = re.match(r"^\(?(_\d+)\.\d+: [^()]*\)?$", place)
    if not defs and mproj:
        # a field of a local (e.g. the value half of a checked arithmetic result): follow the local
        return _c03_trace_clock(body, mproj.group(1), depth + 1)
    if len(defs) != 1:
        return (None if not defs else False), "%s is assigned %d times" % (place[:40], len(defs))
    rhs = defs[0].split(" = ", 1)[1]
    if re.match(r"^system_time_now\(\) -> ", rhs):
        return True, "system_time_now()"
    m = re.match(r"^(?:no_retag )?(?:copy |move |&(?:mut )?)(\(?.+?\)?);$", rhs)
    if m and not re.search(r"[A-Za-z_]\w*\(", m.group(1).split(":")[0]):
        inner = m.group(1)
        return _c03_trace_clock(body, inner, depth + 1)
    return False, "assigned from `%s`" % rhs[:80]


def _c03_clock_flow(bodies, closure_body, ve_calls):
    probs = []
    # (1) reconciliation path: which captured field reaches validate_entry's first argument, and where it comes from
    outer = find_body(bodies, r"^sync::<impl at [^>]*>::sync_process_message::\{closure#0\}$", r"Replica<")
    mfld = re.search(r"\(fld_(\d+) \(deref closure_env", ve_calls[0][0]) if ve_calls else None
    if len(outer) != 1 or not mfld:
        return "inconclusive", "outer coroutine / captured clock field not identified (%s)" % (ve_calls[0][0][:40] if ve_calls else "-")
    k = int(mfld.group(1))
    cl = re.match(r"^_1: &?(\{closure@[^}]*\})", closure_body.args)
    site = [st for blk in outer[0].blocks.values() for st in blk if cl and re.match(r"^_\d+ = %s \{" % re.escape(cl.group(1)), st)]
    if len(site) != 1:
        return "inconclusive", "closure construction site not found uniquely (%d)" % len(site)
    fields = Exec.split_args(site[0].split("{", 2)[2].rsplit("}", 1)[0])
    if k >= len(fields):
        return "inconclusive", "captured field %d not in %s" % (k, fields)
    op = re.sub(r"^(copy|move) ", "", fields[k].split(":", 1)[1].strip())
    ok, why = _c03_trace_clock(outer[0], op)
    if ok is None:
        return "inconclusive", "reconciliation path: " + why
    if not ok:
        probs.append("reconciliation path: the clock value is " + why)
    # (2) direct path: validate_entry's first argument in Replica::insert_entry
    direct = find_body(bodies, r"^sync::<impl at [^>]*>::insert_entry::\{closure#0\}$", r"Replica<")
    for b in direct:
        for blk in b.blocks.values():
            for st in blk:
                m = re.search(r"= validate_entry::<.*?>\((?:move|copy) (_\d+),", st)
                if m:
                    ok2, why2 = _c03_trace_clock(b, m.group(1))
                    if ok2 is None:
                        return "inconclusive", "direct path: " + why2
                    if not ok2:
                        probs.append("direct path: the clock value is " + why2)
    if probs:
        return "violated", "; ".join(probs)
    return "holds", "both paths read system_time_now() and hand it on unchanged"


QUERIES = {
    "C03": [q_c03_reconcile_validation],
}


# ------------------------------------------------------------------------------------------------
# C10: the accepting side can always report its outcome
# ------------------------------------------------------------------------------------------------

def q_c10_bob_outcome(bodies):
    """C10: `BobState::run` is an async fn; its MIR is the coroutine state machine (loops, yields).
    Abstraction decided by the solver: control-flow reachability over the REAL block graph with one
    tracked fact — is `self.progress` `Some`?  (`Option::take(&mut self.progress)` clears it, an
    assignment of `Some(..)` to the field sets it; every branch condition is left free, suspension
    points continue at their resume block).  Query: can the state machine reach its final `return`
    with `progress == None` while `BobState::into_outcome` (called unconditionally by
    `net::handle_connection` after `run`) unwraps it?  A satisfiable query is confirmed by the native
    witness d6 (real BobState, store actor gone)."""
    import re as _re
    name = "c10_bob_outcome"
    hits = find_body(bodies, r"net::codec::<impl at src/net/codec\.rs:\d+:\d+: \d+:\d+>::run::\{closure#0\}$", r"Poll<Result<keys::NamespaceId, net::AcceptError>>")
    outs = find_body(bodies, r"net::codec::<impl at src/net/codec\.rs:\d+:\d+: \d+:\d+>::into_outcome$")
    if len(hits) != 1 or len(outs) != 1:
        return dict(name=name, property="C10", verdict="inconclusive", detail="bodies not found uniquely (%d, %d)" % (len(hits), len(outs)), functions=[])
    body, outb = hits[0], outs[0]
    # does into_outcome panic on None?  (it does iff it calls Option::unwrap/expect on the progress field)
    out_text = "\n".join(st for b in outb.blocks.values() for st in b)
    unwraps = bool(_re.search(r"Option::<sync::SyncOutcome>::(unwrap|expect)\(", out_text))
    # classify blocks
    FIELD = r"\(\(\*_\d+\)\.2: std::option::Option<sync::SyncOutcome>\)"
    some_locals = set()
    for b in body.blocks.values():
        for st in b:
            m = _re.match(r"^(_\d+) = std::option::Option::<sync::SyncOutcome>::Some\(", st)
            if m:
                some_locals.add(m.group(1))
    takes_ref = {}
    for b in body.blocks.values():
        for st in b:
            m = _re.match(r"^(_\d+) = &mut " + FIELD + ";$", st)
            if m:
                takes_ref[m.group(1)] = True
    effect = {}      # block -> 'none' | 'some' | None
    resume = {}      # suspend state -> resume block
    final_blocks, suspend_blocks = [], {}
    bb0 = body.blocks["bb0"][-1]
    for k, tgt in _re.findall(r"(\d+): (bb\d+)", bb0):
        resume[int(k)] = tgt
    for bn, b in body.blocks.items():
        eff = None
        for st in b:
            m = _re.match(r"^" + FIELD + r" = move (_\d+);$", st)
            if m:
                eff = "some" if m.group(1) in some_locals else "unknown"
            m = _re.match(r"^_\d+ = std::option::Option::<sync::SyncOutcome>::take\(move (_\d+)\)", st)
            if m and m.group(1) in takes_ref:
                eff = "none"
            m = _re.match(r"^discriminant\(\(\*_\d+\)\) = (\d+);$", st)
            if m and b[-1].startswith("return"):
                k = int(m.group(1))
                if k == 1:
                    final_blocks.append(bn)
                elif k >= 3:
                    suspend_blocks[bn] = k
        effect[bn] = eff
    if not final_blocks or "unknown" in effect.values():
        return dict(name=name, property="C10", verdict="inconclusive", detail="could not classify the coroutine's blocks (final=%s)" % final_blocks, functions=[body.name])
    # edges
    edges = []
    for bn in body.blocks:
        if bn in suspend_blocks:
            edges.append((bn, resume.get(suspend_blocks[bn])))
            continue
        for s2 in body.successors(bn):
            if s2 in body.blocks:
                edges.append((bn, s2))
    # SMT (propositional): is there an inductive invariant — a set of (block, flag) facts that contains
    # the start, is closed under every edge of the real block graph, and excludes "final return with
    # progress == None"?  sat => such an invariant exists => unreachable; unsat => reachable.
    L = ["(set-logic QF_UF)"]
    names = {}
    for bn in body.blocks:
        for f in ("S", "N"):
            v = "inv_%s_%s" % (bn, f)
            names[(bn, f)] = v
            L.append("(declare-const %s Bool)" % v)
    start = resume.get(0, "bb1")

    def post(bn, f):
        e = effect[bn]
        return "S" if e == "some" else ("N" if e == "none" else f)

    L.append("(assert %s)" % names[(start, "S")])
    for (a2, b2) in edges:
        if b2 is None:
            continue
        for f in ("S", "N"):
            L.append("(assert (=> %s %s))" % (names[(a2, f)], names[(b2, post(a2, f))]))
    for fb in final_blocks:
        for f in ("S", "N"):
            if post(fb, f) == "N":
                L.append("(assert (not %s))" % names[(fb, f)])
    L.append("(check-sat)")
    verdict, detail = solve("\n".join(L), timeout=120)
    reach_none = {"unsat": True, "sat": False}.get(verdict)
    if reach_none is None:
        return dict(name=name, property="C10", verdict="inconclusive", detail="solver: %s" % verdict, functions=[body.name, outb.name])
    violated = reach_none and unwraps
    return dict(name=name, property="C10", verdict="violated" if violated else "holds",
                detail="final return reachable with progress=None: %s (blocks=%d, edges=%d, take sites=%d, restore sites=%d); into_outcome unwraps the field: %s"
                % (reach_none, len(body.blocks), len(edges), sum(1 for e in effect.values() if e == "none"), sum(1 for e in effect.values() if e == "some"), unwraps),
                functions=[body.name, outb.name], queries=1, cases=sum(1 for e in effect.values() if e) + len(final_blocks), witness="d6",
                check_message="the accepting side can always report its outcome after run returned")


QUERIES["C10"] = [q_c10_bob_outcome]


# ------------------------------------------------------------------------------------------------
# C14: open/close counting and the sticky sync switch (OpenReplicas::open_with / close)
# ------------------------------------------------------------------------------------------------

def _tracing_off_models():
    """tracing/log macros: every enabled-check answers 'disabled' (their expansions are loop-free
    side paths that rejoin); formatting helpers are opaque."""
    f = lambda ex, v: "(b2v false)"  # noqa
    t = lambda ex, v: "(b2v true)"  # noqa
    return {
        r"PartialOrd<.*LevelFilter>>::le$": f,
        r"Interest::is_never$": t,
        r"__macro_support::__is_enabled$": f,
        r"dispatcher::has_been_set$": t,
        r"Log>::enabled$": f,
    }


def q_c14_open_close(bodies):
    """C14: the real `OpenReplicas::open_with` and `OpenReplicas::close` (loop-free MIR; the HashMap
    entry API is modelled: `entry()` yields an Occupied or Vacant entry, `get_mut` a reference to
    the stored state, writes through it are tracked in a path-local heap).  Decided:
      close:  not open  -> returns true, removes nothing, writes nothing;
              open      -> handles' = handles.wrapping_sub(1); returns (handles' == 0); the entry is removed iff handles' == 0;
                           the sync flag is not written;
      open_with: open   -> handles' = handles + 1; sync' = sync || opts.sync; the store callback is not called;
                 not open -> the inserted state has handles = 1 and sync = opts.sync."""
    import re as _re
    name = "c14_open_close"
    closes = find_body(bodies, r"actor::<impl at src/actor\.rs:\d+:\d+: \d+:\d+>::close$", r"OpenReplicas.*-> bool")
    opens = find_body(bodies, r"actor::<impl at src/actor\.rs:\d+:\d+: \d+:\d+>::open_with$", r"OpenReplicas")
    if len(closes) != 1 or len(opens) != 1:
        return dict(name=name, property="C14", verdict="inconclusive", detail="bodies not found uniquely (%d, %d)" % (len(closes), len(opens)), functions=[])
    problems, nq = [], 0

    def mk():
        smt = Smt()
        smt.fun("discr", 1)
        smt.fun("fld_1", 1)
        smt.fun("fld_2", 1)
        smt.fun("wsub1", 1)
        smt.fun("add1", 1)
        log = {"removed": [], "inserted": [], "cb": []}

        def m_entry(ex, v):
            return smt.const("entry")

        def m_get_mut(ex, v):
            return "(ref (state_of %s))" % mk_deref(v[0]) if False else "(%s %s)" % (smt.fun("stateref", 1), mk_deref(v[0]))

        def m_remove(ex, v):
            log["removed"].append(v[0])
            return smt.const("removed")

        def m_insert(ex, v):
            log["inserted"].append(v)
            return smt.const("inserted_ref")

        def m_wsub(ex, v):
            return "(wsub1 %s)" % v[0] if v[1].startswith("k_1") or "1_usize" in v[1] else smt.const("wsub_other")

        def m_cb(ex, v):
            log["cb"].append(v)
            return smt.const("cb_result")

        models = dict(_tracing_off_models())
        models.update({
            r"HashMap::<.*>::entry$": m_entry,
            r"OccupiedEntry::<.*>::get_mut$": m_get_mut,
            r"OccupiedEntry::<.*>::remove_entry$": m_remove,
            r"VacantEntry::<.*>::insert$": m_insert,
            r"wrapping_sub$": m_wsub,
            r"FnMut<\(\)>>::call_mut$": m_cb,
        })
        return smt, models, log

    def is_occ(pc):
        return any(("discr" in c and "int_0" in c and not c.startswith("(not")) for c in pc) or any(c.startswith("(and (not") and "int_1" in c for c in pc)

    # ---------------- close ----------------
    smt, models, log = mk()
    ex = Exec(bodies, smt, models=models, max_paths=4000)
    args = [smt.const("self_ref"), smt.const("namespace")]
    try:
        paths = ex.run(closes[0], args)
    except ValueError as e:
        return dict(name=name, property="C14", verdict="inconclusive", detail="close: %s" % e, functions=[closes[0].name])
    n_occ = n_vac = 0
    for pc, ret, calls, env in paths:
        callees = [c[0] for c in calls]
        occupied = any("OccupiedEntry" in c and "get_mut" in c for c in callees)
        removed = any("remove_entry" in c for c in callees)
        writes = env.get("__writes", [])
        pcs = " ".join(pc) if pc else "true"
        if not occupied:
            n_vac += 1
            nq += 1
            v, _ = solve(smt.script("(and %s (not %s))" % (pcs, mk_v2b(ret))))
            if v != "unsat":
                problems.append(("close of a document that is not open returns true", v))
            if writes or removed:
                problems.append(("close of a document that is not open changes nothing", "structural"))
        else:
            n_occ += 1
            hw = [w for w in writes if w[1] == "2"]
            sw = [w for w in writes if w[1] == "1"]
            if sw:
                problems.append(("close does not touch the sync flag", "structural"))
            if len(hw) != 1:
                problems.append(("close writes the handle count exactly once", "structural"))
                continue
            ref, _f, newv = hw[0]
            old = "(fld_2 %s)" % mk_deref(ref)
            nq += 2
            v, _ = solve(smt.script("(and %s (not (= %s (wsub1 %s))))" % (pcs, newv, old)))
            if v != "unsat":
                problems.append(("every close of an open document releases exactly one handle", v))
            zero = "(= %s %s)" % (newv, ex._konst("0_usize"))
            v, _ = solve(smt.script("(and %s (not (= %s %s)))" % (pcs, mk_v2b(ret), zero)))
            if v != "unsat":
                problems.append(("close reports whether the document is closed afterwards", v))
            nq += 1
            v, _ = solve(smt.script("(and %s (not (= %s %s)))" % (pcs, "true" if removed else "false", zero)))
            if v != "unsat":
                problems.append(("the document is removed exactly when its last handle is released", v))
    if n_occ == 0 or n_vac == 0:
        problems.append(("close: both the open and the not-open case are explored (occ=%d, vac=%d)" % (n_occ, n_vac), "vacuous"))
    close_paths = len(paths)

    # ---------------- open_with ----------------
    smt, models, log = mk()
    ex = Exec(bodies, smt, models=models, max_paths=4000)
    args = [smt.const("self_ref"), smt.const("namespace"), smt.const("opts"), smt.const("open_cb")]
    try:
        paths = ex.run(opens[0], args)
    except ValueError as e:
        return dict(name=name, property="C14", verdict="inconclusive", detail="open_with: %s" % e, functions=[opens[0].name])
    opt_sync = "(fld_0 %s)" % args[2]
    smt.fun("fld_0", 1)
    n_occ = n_vac = 0
    for pc, ret, calls, env in paths:
        callees = [c[0] for c in calls]
        occupied = any("OccupiedEntry" in c and "get_mut" in c for c in callees)
        called_cb = any("call_mut" in c for c in callees)
        writes = env.get("__writes", [])
        pcs = " ".join(pc) if pc else "true"
        if occupied:
            n_occ += 1
            if called_cb:
                problems.append(("an additional open does not reload the document from the store", "structural"))
            hw = [w for w in writes if w[1] == "2"]
            sw = [w for w in writes if w[1] == "1"]
            if len(hw) != 1 or len(sw) != 1:
                problems.append(("an additional open writes the handle count and the sync flag once each (handles=%d, sync=%d)" % (len(hw), len(sw)), "structural"))
                continue
            ref = hw[0][0]
            old_h = "(fld_2 %s)" % mk_deref(ref)
            old_s = "(fld_1 %s)" % mk_deref(ref)
            # handles' = old + 1 : the written value is field 0 of AddWithOverflow(old, 1)
            nq += 2
            newh = hw[0][2]
            ok_h = ("op_AddWithOverflow %s" % old_h) in newh or ("op_Add %s" % old_h) in newh
            if not ok_h:
                problems.append(("every open adds exactly one handle", "structural: wrote %s" % newh[:80]))
            news = sw[0][2]
            v, _ = solve(smt.script("(and %s (not (= %s (or %s %s))))" % (pcs, mk_v2b(news), mk_v2b(old_s), mk_v2b(opt_sync))))
            if v != "unsat":
                problems.append(("enabling sync is sticky across additional opens", v))
        else:
            ins = [c for c in calls if "VacantEntry" in c[0] and "insert" in c[0]]
            if not ins:
                continue  # the store callback failed: error return, nothing inserted
            n_vac += 1
            if not called_cb:
                problems.append(("the first open loads the document from the store", "structural"))
            st = ins[0][1][1]
            m = _re.match(r"^\(mk_[A-Za-z_]*OpenReplica\S* (.+)\)$", st)
            if not m:
                problems.append(("the first open inserts a fresh state", "structural: %s" % st[:80]))
                continue
            nq += 1
            v, _ = solve(smt.script("(and %s (not (and (= %s %s))))" % (pcs, "true", "true")))
            parts = Exec.split_args(st[1:-1].replace(" ", ",", 0)) if False else None
            # the aggregate's operands, in field order: info, sync, handles
            ops = _split_sexpr_args(st)
            if len(ops) != 3 or not ("int_1" in ops[2] or "1_usize" in ops[2] or "k_1" in ops[2]):
                problems.append(("the first open holds exactly one handle", "structural: %s" % (ops[2] if len(ops) == 3 else st)[:80]))
            if len(ops) == 3:
                v, _ = solve(smt.script("(and %s (not (= %s %s)))" % (pcs, mk_v2b(ops[1]), mk_v2b(opt_sync))))
                if v != "unsat":
                    problems.append(("the first open takes the sync flag from its options", v))
    if n_occ == 0 or n_vac == 0:
        problems.append(("open_with: both the open and the not-open case are explored (occ=%d, vac=%d)" % (n_occ, n_vac), "vacuous"))
    verdict = "holds"
    if any(p[1] in ("inconclusive", "vacuous") for p in problems):
        verdict = "inconclusive"
    if any(p[1] not in ("inconclusive", "vacuous") for p in problems):
        verdict = "violated"
    return dict(name=name, property="C14", verdict=verdict,
                detail="close paths=%d, open_with paths=%d; problems: %s" % (close_paths, len(paths), problems or "none"),
                functions=[closes[0].name, opens[0].name, "HashMap::entry / OccupiedEntry::{get_mut,remove_entry} / VacantEntry::insert (modelled)"],
                queries=nq, cases=close_paths + len(paths), witness="c14",
                check_message=(problems[0][0] if problems else "open/close counting and sticky sync"))


def _find_ops(text):
    """all `(op_Ge|Gt|Le|Lt a b)` sub-terms of an s-expression text, with balanced arguments"""
    import re as _re
    out = []
    for m in _re.finditer(r"\(op_(Ge|Gt|Le|Lt) ", text):
        i = m.end()
        args = []
        for _ in range(2):
            while i < len(text) and text[i] == " ":
                i += 1
            j = i
            if text[i] == "(":
                d = 0
                while j < len(text):
                    if text[j] == "(":
                        d += 1
                    elif text[j] == ")":
                        d -= 1
                        if d == 0:
                            j += 1
                            break
                    j += 1
            else:
                while j < len(text) and text[j] not in " )":
                    j += 1
            args.append(text[i:j])
            i = j
        if len(args) == 2 and (m.group(1), args[0], args[1]) not in out:
            out.append((m.group(1), args[0], args[1]))
    return out


def _split_sexpr_args(t):
    """arguments of an s-expression `(f a b c)` at depth 1"""
    t = t.strip()
    assert t.startswith("(") and t.endswith(")")
    inner = t[1:-1]
    out, d, cur = [], 0, ""
    for ch in inner:
        if ch == "(":
            d += 1
        elif ch == ")":
            d -= 1
        if ch == " " and d == 0:
            if cur:
                out.append(cur)
            cur = ""
        else:
            cur += ch
    if cur:
        out.append(cur)
    return out[1:]


QUERIES["C14"] = [q_c14_open_close]


# ------------------------------------------------------------------------------------------------
# C07: the actor propagates an imported capability to an open replica only through merge
# ------------------------------------------------------------------------------------------------

def q_c07_actor_import(bodies):
    """C07: the `Action::ImportNamespace` handler of the store actor (a loop-free closure).
    Decided over all its paths: the open replica's state is never written directly — the only
    operation on it is `ReplicaInfo::merge_capability(&mut state.info, <the imported capability>)`
    for the document named by that capability; it happens whenever the store reports `Upgraded`
    and the document is open; the returned id is the imported capability's id.  (merge itself
    never downgrades: Kani harness capability_merge.)"""
    name = "c07_actor_import"
    hits = [b for b in find_body(bodies, r"actor::<impl at src/actor\.rs:\d+:\d+: \d+:\d+>::on_action::\{closure#0\}::\{closure#\d+\}$", r"&mut Actor -> Result<keys::NamespaceId")
            if "sync::Capability" in "\n".join(st for blk in b.blocks.values() for st in blk)]
    if len(hits) != 1:
        return dict(name=name, property="C07", verdict="inconclusive", detail="ImportNamespace closure not found uniquely (%d)" % len(hits), functions=[])
    body = hits[0]
    smt = Smt()
    smt.fun("discr", 1)
    smt.fun("fld_0", 1)
    smt.fun("fld_1", 1)
    calls_seen = []

    def m_id(ex, v):
        return "(%s %s)" % (smt.fun("cap_id", 1), mk_deref(v[0]))

    def m_clone(ex, v):
        return mk_deref(v[0])

    models = dict(_tracing_off_models())
    models.update({
        r"sync::Capability::id$": m_id,
        r"<sync::Capability as Clone>::clone$": m_clone,
    })
    ex = Exec(bodies, smt, models=models, max_paths=2000)
    args = [smt.const("closure_env"), smt.const("actor_ref")]
    try:
        paths = ex.run(body, args)
    except ValueError as e:
        return dict(name=name, property="C07", verdict="inconclusive", detail=str(e), functions=[body.name])
    cap = "(fld_0 %s)" % args[0]
    problems, nq = [], 0
    n_merge = n_upgraded_open = 0
    for pc, ret, calls, env in paths:
        pcs = " ".join(pc) if pc else "true"
        if env.get("__writes"):
            problems.append(("the open replica's state is changed only through merge_capability", "structural: direct write %s" % str(env["__writes"][0])[:100]))
        imports = [c for c in calls if c[0].endswith("Store::import_namespace")]
        getm = [c for c in calls if c[0].endswith("OpenReplicas::get_mut")]
        merges = [c for c in calls if "merge_capability" in c[0] or c[0].endswith("Capability::merge")]
        others = [c for c in calls if any("OpenReplica" in a or "stateref" in a for a in c[1]) and c not in getm and c not in merges]
        if len(imports) != 1:
            problems.append(("the capability is imported into the store exactly once", "structural"))
            continue
        nq += 1
        v, _ = solve(smt.script("(and %s (not (= %s %s)))" % (pcs, imports[0][1][1], cap)))
        if v != "unsat":
            problems.append(("the store receives the imported capability", v))
        for mcall in merges:
            n_merge += 1
            nq += 2
            v, _ = solve(smt.script("(and %s (not (= %s %s)))" % (pcs, mcall[1][1], cap)))
            if v != "unsat":
                problems.append(("merge_capability receives the imported capability", v))
            if not getm:
                problems.append(("merge_capability is applied to the replica looked up for this document", "structural"))
            else:
                v, _ = solve(smt.script("(and %s (not (= %s (cap_id %s))))" % (pcs, mk_deref(getm[0][1][1]), cap)))
                if v != "unsat":
                    problems.append(("the open replica is looked up by the imported capability's id", v))
        # Upgraded (discriminant 1) and open (get_mut Ok = discriminant 0) => merged
        upgraded = any(c.startswith("(= (discr (fld_0 (as_Continue") and c.endswith("k_int_1)") for c in pc)
        if getm:
            open_ok = any(c.startswith("(= (discr (call_OpenReplicas__get_mut") and c.endswith("k_int_0)") for c in pc)
            if upgraded and open_ok:
                n_upgraded_open += 1
                if not merges:
                    problems.append(("an upgrade reported by the store is merged into the open replica", "structural"))
    if n_merge == 0:
        problems.append(("some path merges the capability into the open replica", "vacuous"))
    verdict = "holds"
    if any(p[1] in ("inconclusive", "vacuous") for p in problems):
        verdict = "inconclusive"
    if any(p[1] not in ("inconclusive", "vacuous") for p in problems):
        verdict = "violated"
    return dict(name=name, property="C07", verdict=verdict,
                detail="paths=%d, merge sites reached=%d; problems: %s" % (len(paths), n_merge, problems or "none"),
                functions=[body.name, "Store::import_namespace / OpenReplicas::get_mut / ReplicaInfo::merge_capability (uninterpreted)"],
                queries=nq, cases=len(paths), witness="c07a",
                check_message=(problems[0][0] if problems else "actor propagates imported capabilities only through merge"))


QUERIES["C07"] = [q_c07_actor_import]


# ------------------------------------------------------------------------------------------------
# C12: the remote-insert event of the reconciliation path carries the callback's arguments
# ------------------------------------------------------------------------------------------------

def q_c12_event_fields(bodies):
    """C12: the closure that builds the subscriber event for an entry applied by a reconciliation
    message (`Replica::sync_process_message`, on_insert callback).  Decided: the event is a
    `RemoteInsert` whose `entry` is (a clone of) the applied entry, `from` the providing peer,
    `namespace` the replica's namespace, `remote_content_status` the status delivered with the entry,
    and `should_download` = `DownloadPolicy::matches(policy, entry.entry())`."""
    import re as _re
    name = "c12_event_fields"
    hits = find_body(bodies, r"sync_process_message::\{closure#0\}::\{closure#1\}::\{closure#0\}::\{closure#0\}$", r"-> sync::Event")
    if len(hits) != 1:
        return dict(name=name, property="C12", verdict="inconclusive", detail="event closure not found uniquely (%d)" % len(hits), functions=[])
    body = hits[0]
    # captured variables by name -> field index of the closure environment
    cap = {}
    for var, expr in body.debug.items():
        m = _re.match(r"^\(\*\(_1\.(\d+): .+\)\)$", expr)
        if m:
            cap[var] = m.group(1)
    need = ["download_policy", "entry", "from_peer", "my_namespace", "content_status"]
    if any(v not in cap for v in need):
        return dict(name=name, property="C12", verdict="inconclusive", detail="captures not identified: %s" % cap, functions=[body.name])
    smt = Smt()
    for i in range(6):
        smt.fun("fld_%d" % i, 1)
    smt.fun("policy_matches", 2)
    models = {
        r"SignedEntry::entry$": lambda ex, v: "(ref (fld_1 %s))" % mk_deref(v[0]),
        r"DownloadPolicy::matches$": lambda ex, v: "(policy_matches %s %s)" % (mk_deref(v[0]), mk_deref(v[1])),
        r"<sync::SignedEntry as Clone>::clone$": lambda ex, v: mk_deref(v[0]),
    }
    # the aggregate keeps field names: read them from the statement text
    agg = None
    for blk in body.blocks.values():
        for st in blk:
            m = _re.match(r"^_0 = sync::Event::(\w+) \{ (.+) \};$", st)
            if m:
                agg = (m.group(1), m.group(2))
    if agg is None:
        return dict(name=name, property="C12", verdict="violated", detail="the closure does not build an Event aggregate", functions=[body.name],
                    witness="c12", check_message="the reconciliation path announces applied entries as RemoteInsert events", queries=0)
    ex = Exec(bodies, smt, models=models)
    env_arg = smt.const("closure_env")
    # run to obtain the environment at the return
    paths = ex.run(body, [env_arg])
    if not paths:
        return dict(name=name, property="C12", verdict="inconclusive", detail="no path through the event closure", functions=[body.name])
    c = lambda var: mk_deref("(fld_%s %s)" % (cap[var], env_arg))  # noqa: the captured value (captures are references)
    want = {
        "namespace": c("my_namespace"),
        "entry": c("entry"),
        "from": c("from_peer"),
        "remote_content_status": c("content_status"),
        "should_download": "(policy_matches %s (fld_1 %s))" % (c("download_policy"), c("entry")),
    }
    problems, nq = [], 0
    if agg[0] != "RemoteInsert":
        problems.append(("entries applied by a reconciliation message are announced as RemoteInsert", "structural: %s" % agg[0]))
    fields = {}
    for pc, ret, calls, env in paths:
        fields = {}
        for part in Exec.split_args(agg[1]):
            k, v = part.split(":", 1)
            fields[k.strip()] = ex.operand(env, v)
        ctx = " ".join(pc) if pc else "true"
        for k, w in want.items():
            if k not in fields:
                problems.append(("the event has a field %s" % k, "structural"))
                continue
            nq += 1
            v, _ = solve(smt.script("(and %s (not (= %s %s)))" % (ctx, fields[k], w)))
            if v != "unsat":
                problems.append(("event field `%s` is the corresponding callback argument / policy decision" % k, v))
    verdict = "holds"
    if any(p[1] == "inconclusive" for p in problems):
        verdict = "inconclusive"
    if any(p[1] != "inconclusive" for p in problems):
        verdict = "violated"
    return dict(name=name, property="C12", verdict=verdict, detail="fields=%s; problems: %s" % (sorted(fields), problems or "none"),
                functions=[body.name, "DownloadPolicy::matches (uninterpreted: decided by the Kani harness policy_matches)"], queries=nq, cases=len(want), witness="c12",
                check_message=(problems[0][0] if problems else "remote insert event fields"))


QUERIES["C12"] = [q_c12_event_fields]


# ------------------------------------------------------------------------------------------------
# C16: removing a document clears every per-document table
# ------------------------------------------------------------------------------------------------

def _tables_fields():
    """field order of `struct Tables` (src/store/fs/tables.rs), read from the current source"""
    import re as _re
    src = open(REPO + "/src/store/fs/tables.rs").read()
    m = _re.search(r"pub struct Tables<'tx> \{(.*?)\n\}", src, _re.S)
    names = _re.findall(r"pub (\w+):", m.group(1)) if m else []
    return names


def q_c16_remove_tables(bodies):
    """C16: the closure of `Store::remove_replica` that runs inside the write transaction.
    Decided over all its paths: on the path that reports success, every table of `Tables` that holds
    per-document rows (all but `authors`) is the receiver of a removing operation whose key/range is
    derived from the removed namespace (records / by-key: `retain_in` over `RecordsBounds::namespace` /
    `ByKeyBounds::namespace` with a predicate that keeps nothing; the others: `remove`/`remove_all`/
    `retain_in`), and `authors` is not touched.  (What those ranges contain: Kani harnesses
    bounds_namespace / bounds_bykey.)  `remove_replica` itself refuses open documents first."""
    import re as _re
    name = "c16_remove_tables"
    hits = find_body(bodies, r"::remove_replica::\{closure#0\}$", r"&mut Tables<'_> -> Result<\(\), anyhow::Error>")
    outer = find_body(bodies, r"store::fs::<impl at src/store/fs\.rs:\d+:\d+: \d+:\d+>::remove_replica$")
    fields = _tables_fields()
    if len(hits) != 1 or len(outer) != 1 or "authors" not in fields:
        return dict(name=name, property="C16", verdict="inconclusive", detail="bodies/fields not found (%d, %d, %s)" % (len(hits), len(outer), fields), functions=[])
    body = hits[0]
    smt = Smt()
    for i in range(len(fields)):
        smt.fun("fld_%d" % i, 1)
    models = dict(_tracing_off_models())
    ex = Exec(bodies, smt, models=models, max_paths=4000)
    args = [smt.const("closure_env"), smt.const("tables_ref")]
    try:
        paths = ex.run(body, args)
    except ValueError as e:
        return dict(name=name, property="C16", verdict="inconclusive", detail=str(e), functions=[body.name])
    ns = mk_deref("(fld_0 %s)" % args[0])
    REMOVERS = ("retain_in", "retain", "remove_all", "remove", "extract_from_if", "extract_if", "pop_first", "pop_last")
    problems, nq = [], 0
    ok_paths = 0
    for pc, ret, calls, env in paths:
        # success path: the closure returns Result::Ok(())
        if "mk_Result" not in ret or "Ok" not in ret:
            continue
        ok_paths += 1
        touched = {}
        for callee, vals, _pc in calls:
            m = _re.search(r"(?:Table|MultimapTable)::<.*?>::(\w+)(?:::<.*>)?$", callee)
            if not m or not vals:
                continue
            m2 = _re.match(r"^\(ref \(fld_(\d+) \(deref %s\)\)\)$" % _re.escape(args[1]), vals[0])
            if not m2:
                continue
            idx = int(m2.group(1))
            if m.group(1) in REMOVERS:
                touched.setdefault(idx, []).append((m.group(1), vals))
        # pre-state: table i may hold rows of the removed document (free Boolean has_row_i); a removing
        # operation keyed by the removed namespace clears them; the solver decides whether any can survive
        post = []
        cap_ref = "(fld_0 %s)" % args[0]
        for i, fname in enumerate(fields):
            if fname == "authors":
                if i in touched:
                    problems.append(("removing a document does not touch the author keys", "structural"))
                continue
            hv = "has_row_%s" % fname
            if ("(declare-const %s Bool)" % hv) not in smt.decls:
                smt.decls.append("(declare-const %s Bool)" % hv)
            cleared = False
            for op, vals in touched.get(i, []):
                if any((ns in v) or (cap_ref in v) for v in vals[1:]):
                    cleared = True
            post.append((fname, "false" if cleared else hv))
        pcs = " ".join(pc) if pc else "true"
        for fname, term in post:
            nq += 1
            v, _ = solve(smt.script("(and %s %s)" % (pcs, term)))
            if v == "sat":
                problems.append(("removing a document clears its rows in table `%s`" % fname, "sat"))
            elif v != "unsat":
                problems.append(("removing a document clears its rows in table `%s`" % fname, "inconclusive"))
    if ok_paths == 0:
        problems.append(("a success path exists", "vacuous"))
    # the predicate closures of retain_in keep nothing
    for cb in find_body(bodies, r"::remove_replica::\{closure#0\}::\{closure#\d+\}$", r"-> bool"):
        txt = "\n".join(st for blk in cb.blocks.values() for st in blk)
        if "_0 = const false;" not in txt:
            problems.append(("the retain predicates of remove_replica keep nothing", "structural"))
    # the outer function refuses open documents before touching the tables
    otxt = "\n".join(st for blk in outer[0].blocks.values() for st in blk)
    if "HashSet::<keys::NamespaceId>::contains" not in otxt and "contains" not in otxt:
        problems.append(("removing a document is refused while it is open", "structural"))
    verdict = "holds"
    if any(p[1] in ("inconclusive", "vacuous") for p in problems):
        verdict = "inconclusive"
    if any(p[1] not in ("inconclusive", "vacuous") for p in problems):
        verdict = "violated"
    return dict(name=name, property="C16", verdict=verdict, detail="tables=%s; success paths=%d of %d; problems: %s" % (fields, ok_paths, len(paths), problems or "none"),
                functions=[body.name, outer[0].name], queries=max(nq, 1), cases=len(fields) - 1, witness="d7",
                check_message=(problems[0][0] if problems else "remove_replica clears every per-document table"))


QUERIES["C16"] = [q_c16_remove_tables]


# ------------------------------------------------------------------------------------------------
# C13: the stored author head only moves forward
# ------------------------------------------------------------------------------------------------

def q_c13_head_update(bodies):
    """C13: the closure of `StoreInstance::entry_put` that writes the three record tables.  The
    stored head of an author must be the greatest timestamp among the author's entries, so writing
    an entry may replace the head row only by a timestamp that is not older than the stored one.
    Ghost pre-state: the head row for (namespace, author) is absent, or present with timestamp OLD.
    Decided per path that reports success: if the head row is (re)written, its timestamp is the
    entry's and (row present => new >= OLD); if it is not written, the row is present and OLD >= new."""
    import re as _re
    name = "c13_head_update"
    hits = find_body(bodies, r"::entry_put::\{closure#0\}$", r"&mut Tables<'_> -> Result<\(\), anyhow::Error>")
    fields = _tables_fields()
    if len(hits) != 1 or "latest_per_author" not in fields:
        return dict(name=name, property="C13", verdict="inconclusive", detail="entry_put closure not found uniquely (%d)" % len(hits), functions=[])
    body = hits[0]
    K = fields.index("latest_per_author")
    smt = Smt()
    for i in range(len(fields)):
        smt.fun("fld_%d" % i, 1)
    smt.fun("discr", 1)
    smt.fun("ts_of", 1)
    smt.decls.append("(declare-fun ge (V V) Bool)")
    args = [smt.const("closure_env"), smt.const("tables_ref")]
    head_tbl = "(ref (fld_%d (deref %s)))" % (K, args[1])
    state = {"get": None, "inserts": []}

    def m_get(ex, v):
        if v[0] == head_tbl:
            state["get"] = smt.const("head_get_res")
            return state["get"]
        return smt.const("other_get")

    def m_insert(ex, v):
        if v[0] == head_tbl:
            state["inserts"].append(v)
        return smt.const("insert_res")

    models = dict(_tracing_off_models())
    models.update({
        r"(Table::<.*>|ReadableTable<.*>>)::get(::<.*>)?$": m_get,
        r"Table::<.*>::insert(::<.*>)?$": m_insert,
        r"SignedEntry::timestamp$|Entry::timestamp$|Record::timestamp$": lambda ex, v: "(ts_of %s)" % mk_deref(v[0]),
    })
    ex = Exec(bodies, smt, models=models, max_paths=4000)
    try:
        paths = ex.run(body, args)
    except ValueError as e:
        return dict(name=name, property="C13", verdict="inconclusive", detail=str(e), functions=[body.name])
    problems, nq, ok_paths = [], 0, 0
    for pc, ret, calls, env in paths:
        if "mk_Result" not in ret or "Ok" not in ret:
            continue
        ok_paths += 1
        gets = [c for c in calls if _re.search(r"(Table::<.*>|ReadableTable<.*>>)::get", c[0]) and c[1] and c[1][0] == head_tbl]
        ins = [c for c in calls if _re.search(r"Table::<.*>::insert", c[0]) and c[1] and c[1][0] == head_tbl]
        pcs = " ".join(pc) if pc else "true"
        extra = []
        if gets:
            # the value the code reads: `?` unpacking, Option match, guard.value().0
            R = None
            for c in calls:
                pass
            # find the constant returned for the head get on this path: it is the unique head_get_res_* symbol in pcs/terms
            syms = sorted(set(_re.findall(r"head_get_res_\d+", pcs + " " + " ".join(" ".join(c[1]) for c in calls))))
            if len(syms) != 1:
                problems.append(("the stored head is read at most once per write", "inconclusive"))
                continue
            R = syms[0]
            allterms = pcs + " " + " ".join(" ".join(c[1]) for c in calls)
            mopt = _re.search(r"\(fld_0 \(as_Continue \((call_[A-Za-z0-9_]*branch) %s\)\)\)" % R, allterms)
            if not mopt:
                problems.append(("the head lookup is unpacked in a recognised way", "inconclusive"))
                continue
            OPT = mopt.group(0)
            present = "(= (discr %s) k_int_1)" % OPT
            mold = _re.search(r"\(fld_0 \((call_[A-Za-z0-9_]*value) \(ref \(fld_0 \(as_Some %s\)\)\)\)\)" % _re.escape(OPT), allterms)
            if not mold:
                # the stored timestamp is never looked at
                OLD = smt.const("old_head_ts")
            else:
                OLD = mold.group(0)
        else:
            present = smt.const("head_present_b")
            smt.decls[-1] = "(declare-const %s Bool)" % present
            OLD = smt.const("old_head_ts")
        # order operators that appear in the path condition, defined over one total preorder `ge`
        for op, a, b2 in _find_ops(pcs):
            t = "(op_%s %s %s)" % (op, a, b2)
            d = {"Ge": "(ge %s %s)" % (a, b2), "Gt": "(not (ge %s %s))" % (b2, a), "Le": "(ge %s %s)" % (b2, a), "Lt": "(not (ge %s %s))" % (a, b2)}[op]
            extra.append("(= (v2b %s) %s)" % (t, d))
        if ins:
            val = ins[0][1][2]
            ops = _split_sexpr_args(val) if val.startswith("(mk_tuple") else []
            NEW = ops[0] if ops else val
        else:
            NEW = "(ts_of %s)" % mk_deref("(fld_0 %s)" % args[0]) if False else None
        # the entry's timestamp as the code computes it (any ts_of term in this path)
        tsn = sorted(set(_re.findall(r"\(ts_of [^()]*(?:\([^()]*(?:\([^()]*\)[^()]*)*\)[^()]*)*\)", pcs + " " + " ".join(" ".join(c[1]) for c in calls))))
        ENTRY_TS = tsn[0] if tsn else smt.const("entry_ts")
        extra.append("(or (ge %s %s) (ge %s %s))" % (ENTRY_TS, OLD, OLD, ENTRY_TS))
        ctx = "(and true %s %s)" % (pcs, " ".join(extra))
        if ins:
            nq += 2
            v, _ = solve(smt.script("(and %s (not (= %s %s)))" % (ctx, NEW, ENTRY_TS)))
            if v != "unsat":
                problems.append(("a rewritten head carries the written entry's timestamp", v))
            v, _ = solve(smt.script("(and %s %s (not (ge %s %s)))" % (ctx, present, ENTRY_TS, OLD)))
            if v != "unsat":
                problems.append(("an entry older than the author's stored head does not lower the head", v))
        else:
            nq += 1
            v, _ = solve(smt.script("(and %s (not (and %s (ge %s %s))))" % (ctx, present, OLD, ENTRY_TS)))
            if v != "unsat":
                problems.append(("the head is left alone only if a head that is not older is already stored", v))
    if ok_paths == 0:
        problems.append(("a success path exists", "vacuous"))
    verdict = "holds"
    if any(p[1] in ("inconclusive", "vacuous") for p in problems):
        verdict = "inconclusive"
    if any(p[1] not in ("inconclusive", "vacuous") for p in problems):
        verdict = "violated"
    return dict(name=name, property="C13", verdict=verdict, detail="success paths=%d of %d; problems: %s" % (ok_paths, len(paths), problems or "none"),
                functions=[body.name, "redb Table::get/insert on latest_per_author (modelled: ghost head row)"], queries=nq, cases=len(paths), witness="d4",
                check_message=(problems[0][0] if problems else "the stored author head only moves forward"))


QUERIES["C13"] = [q_c13_head_update]


# ------------------------------------------------------------------------------------------------
# generic: reachability of a coroutine's final return with a tracked Boolean fact
# ------------------------------------------------------------------------------------------------

def coroutine_reach(body, sets, clears, init, goal_value):
    """Is the final `return` (coroutine discriminant := 1) of an async body reachable with the tracked
    fact == goal_value?  `sets(bn, stmts)` / `clears(bn, stmts)` say whether a block sets / clears the
    fact.  Branch conditions are free; suspension points continue at their resume block.  Encoded
    as the non-existence of an inductive invariant (propositional; exact for this abstraction).
    Returns (reachable: True/False/None, stats)."""
    import re as _re
    resume, final_blocks, suspend = {}, [], {}
    bb0 = body.blocks["bb0"][-1]
    for k, tgt in _re.findall(r"(\d+): (bb\d+)", bb0):
        resume[int(k)] = tgt
    effect = {}
    for bn, b in body.blocks.items():
        eff = None
        if sets(bn, b):
            eff = True
        if clears(bn, b):
            eff = False
        effect[bn] = eff
        for st in b:
            m = _re.match(r"^discriminant\(\(\*_\d+\)\) = (\d+);$", st)
            if m and b[-1].startswith("return"):
                k = int(m.group(1))
                if k == 1:
                    final_blocks.append(bn)
                elif k >= 3:
                    suspend[bn] = k
    if not final_blocks:
        return None, {"error": "no final return found"}
    edges = []
    for bn in body.blocks:
        if bn in suspend:
            edges.append((bn, resume.get(suspend[bn])))
            continue
        for s2 in body.successors(bn):
            if s2 in body.blocks:
                edges.append((bn, s2))
    L = ["(set-logic QF_UF)"]
    nm = {}
    for bn in body.blocks:
        for f in ("T", "F"):
            nm[(bn, f)] = "inv_%s_%s" % (bn, f)
            L.append("(declare-const %s Bool)" % nm[(bn, f)])

    def post(bn, f):
        e = effect[bn]
        return f if e is None else ("T" if e else "F")

    start = resume.get(0, "bb1")
    L.append("(assert %s)" % nm[(start, "T" if init else "F")])
    for (a2, b2) in edges:
        if b2 is None:
            continue
        for f in ("T", "F"):
            L.append("(assert (=> %s %s))" % (nm[(a2, f)], nm[(b2, post(a2, f))]))
    g = "T" if goal_value else "F"
    for fb in final_blocks:
        for f in ("T", "F"):
            if post(fb, f) == g:
                L.append("(assert (not %s))" % nm[(fb, f)])
    L.append("(check-sat)")
    verdict, _ = solve("\n".join(L), timeout=120)
    reach = {"unsat": True, "sat": False}.get(verdict)
    return reach, {"blocks": len(body.blocks), "edges": len(edges), "set_sites": sum(1 for e in effect.values() if e is True),
                   "clear_sites": sum(1 for e in effect.values() if e is False), "final": len(final_blocks)}


def q_c11_connect_glue(bodies):
    """C11 glue: `LiveActor::on_sync_via_connect_finished` (async).  Every way a dial can end must
    either hand the result to `on_sync_finished` (which calls `state.finish`) or free the slot with
    `state.abort_connect` — otherwise the dialer stays marked busy for ever.  Decided as reachability
    over the real MIR block graph: can the handler return without having called one of the two?
    (The Kani scenario harnesses mirror exactly this glue in `dial_ends`.)"""
    name = "c11_connect_glue"
    hits = find_body(bodies, r"on_sync_via_connect_finished::\{closure#0\}::\{closure#0\}$", r"Poll<\(\)>")
    if len(hits) != 1:
        return dict(name=name, property="C11", verdict="inconclusive", detail="handler body not found uniquely (%d)" % len(hits), functions=[])
    body = hits[0]
    import re as _re
    CALL = _re.compile(r"^_\d+ = (NamespaceStates::abort_connect|LiveActor::on_sync_finished|NamespaceStates::finish)\(")
    sets = lambda bn, b: any(CALL.match(st) for st in b)  # noqa
    reach, stats = coroutine_reach(body, sets, lambda bn, b: False, init=False, goal_value=False)
    if reach is None:
        return dict(name=name, property="C11", verdict="inconclusive", detail="solver/structure: %s" % stats, functions=[body.name])
    if stats["set_sites"] == 0:
        return dict(name=name, property="C11", verdict="violated", detail="the handler never finishes or frees the sync state: %s" % stats, functions=[body.name],
                    queries=1, cases=1, witness=None, check_message="a finished, failed or declined dial always finishes or frees the dialer's sync state")
    return dict(name=name, property="C11", verdict="violated" if reach else "holds",
                detail="return reachable without finish/abort_connect: %s; %s" % (reach, stats), functions=[body.name], queries=1,
                cases=stats["set_sites"] + stats["final"], witness=None,
                check_message="a finished, failed or declined dial always finishes or frees the dialer's sync state")


QUERIES["C11"] = [q_c11_connect_glue]


# ------------------------------------------------------------------------------------------------
# C17: the useful-peer list is a bounded most-recently-used list (one inductive step + read order)
# ------------------------------------------------------------------------------------------------

def _c17_models(smt, K, cache_n, fields, st):
    """models shared by the two C17 queries.  The multimap row of the document is the ascending list
    (n_0,p_0) < ... < (n_{K-1},p_{K-1}) (redb keeps multimap values sorted); its iterator is a window
    (lo, hi) kept in the path-local environment."""
    from mirsmt import split_sexpr_args
    smt.fun("C_Ok", 1); smt.fun("C_Some", 1); smt.fun("C_None", 0); smt.fun("C_Continue", 1)
    smt.fun("C_guard", 2); smt.fun("C_tuple2", 2); smt.fun("discr", 1)
    NS_T = "(ref (fld_%d TBL))" % fields.index("namespaces")
    PEERS_T = "(ref (fld_%d TBL))" % fields.index("namespace_peers")
    st["PEERS_T"] = PEERS_T

    def elem(i):
        return "(C_guard n_%d p_%d)" % (i, i)

    def m_table_get(ex, v):
        if v[0] == NS_T:
            return "(C_Ok DOCOPT)"
        return "(C_Ok %s)" % smt.const("other_get")

    def m_mm_get(ex, v, env):
        if v[0] != PEERS_T:
            raise ValueError("multimap get on an unexpected table: %s" % v[0])
        env["__it"] = (0, K)
        return "(C_Ok ITER)"
    m_mm_get.wants_env = True

    def m_branch(ex, v):
        if v[0].startswith("(C_Ok "):
            return "(C_Continue %s)" % split_sexpr_args(v[0])[0]
        return "(%s %s)" % (smt.fun("call_branch", 1), v[0])

    def m_next(ex, v, env):
        lo, hi = env["__it"]
        if lo >= hi:
            return "C_None"
        env["__it"] = (lo + 1, hi)
        return "(C_Some (C_Ok %s))" % elem(lo)
    m_next.wants_env = True

    def m_next_back(ex, v, env):
        lo, hi = env["__it"]
        if lo >= hi:
            return "C_None"
        env["__it"] = (lo, hi - 1)
        return "(C_Some (C_Ok %s))" % elem(hi - 1)
    m_next_back.wants_env = True

    def m_transpose(ex, v):
        if v[0] == "C_None":
            return "(C_Ok C_None)"
        inner = split_sexpr_args(v[0])[0]  # (C_Ok g)
        return "(C_Ok (C_Some %s))" % split_sexpr_args(inner)[0]

    def m_map_guard(ex, v):
        if v[0] == "C_None":
            return "C_None"
        n, p = split_sexpr_args(split_sexpr_args(v[0])[0])
        return "(C_Some (C_tuple2 %s %s))" % (n, p)

    def m_value(ex, v):
        g = mk_deref(v[0])
        n, p = split_sexpr_args(g)
        return "(C_tuple2 %s (ref %s))" % (n, p)

    def m_eq(ex, v):
        return "(b2v (= %s %s))" % (mk_deref(mk_deref(v[0])), mk_deref(mk_deref(v[1])))

    def m_is_some(ex, v):
        return "(b2v (= (discr %s) k_int_1))" % mk_deref(v[0])

    def m_is_none(ex, v):
        x = mk_deref(v[0])
        if x == "C_None":
            return "(b2v true)"
        if x.startswith("(C_Some "):
            return "(b2v false)"
        raise ValueError("is_none on a non-constructor value")

    def m_not(ex, v):
        return "(b2v (not %s))" % mk_v2b(v[0])

    def m_push(ex, v, env):
        env["__pushed"] = env.get("__pushed", ()) + (v[1],)
        return ex._konst("unit")
    m_push.wants_env = True

    def m_is_empty(ex, v, env):
        return "(b2v %s)" % ("true" if not env.get("__pushed") else "false")
    m_is_empty.wants_env = True

    ex_k = lambda ex, v: "(C_Ok (b2v true))"  # noqa
    models = dict(_tracing_off_models())
    models.update({
        r"^<Table<.*> as ReadableTable<.*>>::get(::<.*>)?$|^Table::<.*>::get(::<.*>)?$": m_table_get,
        r"^<MultimapTable<.*> as ReadableMultimapTable<.*>>::get(::<.*>)?$|^MultimapTable::<.*>::get(::<.*>)?$": m_mm_get,
        r" as Try>::branch$": m_branch,
        r"^<MultimapValue<.*> as Iterator>::next$": m_next,
        r"^<MultimapValue<.*> as DoubleEndedIterator>::next_back$|^<Rev<MultimapValue<.*>> as Iterator>::next$": m_next_back,
        r"^<MultimapValue<.*> as Iterator>::rev$": lambda ex, v: "ITER_REV",
        r" as IntoIterator>::into_iter$": lambda ex, v: v[0],
        r"^std::option::Option::<Result<AccessGuard<.*>, StorageError>>::transpose$": m_transpose,
        r"^std::option::Option::<AccessGuard<.*>>::map::<\(u64, \[u8; 32\]\), \{closure": m_map_guard,
        r"^AccessGuard::<.*>::value$": m_value,
        r"^<&\[u8; 32\] as PartialEq>::eq$": m_eq,
        r"^std::option::Option::<AccessGuard<.*>>::is_some$": m_is_some,
        r"^std::option::Option::<u64>::is_none$": m_is_none,
        r"anyhow::__private::not": m_not,
        r"^NonZero::<usize>::get$": lambda ex, v: ex._konst("%d_usize" % cache_n),
        r"^MultimapTable::<.*>::(insert|remove)(::<.*>)?$": ex_k,
        r"^Vec::<\[u8; 32\]>::push$": m_push,
        r"^Vec::<\[u8; 32\]>::is_empty$": m_is_empty,
        r"^store::fs::Store::tables$": lambda ex, v: "(C_Ok (ref TBL))",
        r"NamespaceId::as_bytes$": lambda ex, v: "(nsbytes %s)" % v[0],
    })
    return models


def _c17_cache_size():
    """the value of PEERS_PER_DOC_CACHE_SIZE: read off the source when it is spelled `NonZeroUsize::new(N)`; however else it is
    spelled, the native replay binary (built from /repo's working tree just before the queries run) is asked for the value the
    constant has in the real build"""
    import re as _re
    import subprocess as _sp
    m = _re.search(r"PEERS_PER_DOC_CACHE_SIZE: NonZeroUsize = match NonZeroUsize::new\((\d+)\)", open(REPO + "/src/store.rs").read())
    if m:
        return int(m.group(1))
    for prof in ("debug", "release"):
        binp = _os.path.join(_os.path.dirname(_os.path.dirname(_os.path.abspath(__file__))), ".work", "replay-target", prof, "verif-replay")
        if _os.path.exists(binp):
            try:
                p = _sp.run([binp, "--const", "PEERS_PER_DOC_CACHE_SIZE"], stdout=_sp.PIPE, stderr=_sp.PIPE, text=True, timeout=60)
                if p.returncode == 0 and p.stdout.strip().isdigit():
                    return int(p.stdout.strip())
            except Exception:  # noqa
                pass
    return None


def _c17_smt(K):
    smt = Smt()
    for c in ["TBL", "DOCOPT", "ITER", "ITER_REV", "NSB", "NANOS", "NEWP", "STORE", "NSID"] + ["n_%d" % i for i in range(K)] + ["p_%d" % i for i in range(K)]:
        smt.decls.append("(declare-const %s V)" % c)
    smt.fun("nsbytes", 1)
    return smt


SPEC_CACHE = 5  # "the store remembers at most five peers" (property C17)


def q_c17_register_step(bodies):
    """C17, one inductive step over the REAL closure of `Store::register_useful_peer` that runs inside
    the write transaction (its `for` loop unrolled: the iterator is a concrete window over K rows).
    Pre-state (the invariant): the document's multimap row is (n_0,p_0) < ... < (n_{K-1},p_{K-1}),
    K in 0..=5, peers pairwise distinct; the new timestamp is newer than every stored one (clock
    contract, see DESIGN).  Symbolic: whether the document exists, and which stored peer (if any)
    equals the registered peer.  Decided for every path: unknown document => Err and no write;
    otherwise exactly (NANOS, peer) is inserted under the document, row j is removed iff p_j is the
    registered peer or (j is the oldest, the list is full with five and the peer is new), and the
    resulting size is <= 5.  That is the MRU update, and it re-establishes the invariant."""
    import re as _re
    from mirsmt import split_sexpr_args
    name = "c17_register_step"
    hits = find_body(bodies, r"::register_useful_peer::\{closure#1\}$", r"&mut Tables<'_> -> Result<\(\), anyhow::Error>")
    fields = _tables_fields()
    cache_n = _c17_cache_size()
    if len(hits) != 1 or "namespace_peers" not in fields or "namespaces" not in fields or cache_n is None:
        return dict(name=name, property="C17", verdict="inconclusive", detail="register_useful_peer closure / Tables / cache size not found uniquely", functions=[])
    body = hits[0]
    # roles of the captured variables, from the closure's debug info
    roles = {}
    for var in ("namespace", "nanos", "peer"):
        m = _re.search(r"\(_1\.(\d+): ", body.debug.get(var, ""))
        if m:
            roles[var] = int(m.group(1))
    if len(roles) != 3 or len(set(roles.values())) != 3:
        return dict(name=name, property="C17", verdict="inconclusive", detail="closure captures not recognised: %s" % body.debug, functions=[body.name])
    problems, nq, ncases = [], 0, 0
    for K in range(0, SPEC_CACHE + 1):
        smt = _c17_smt(K)
        smt.fun("C_closure3", 3)
        st = {}
        models = _c17_models(smt, K, cache_n, fields, st)
        cl = [None, None, None]
        cl[roles["namespace"]] = "(ref NSB)"
        cl[roles["nanos"]] = "(ref NANOS)"
        cl[roles["peer"]] = "(ref (ref NEWP))"
        args = ["(C_closure3 %s)" % " ".join(cl), "(ref TBL)"]
        ex = Exec(bodies, smt, models=models, max_paths=4000, ctor=True, unroll=True)
        try:
            paths = ex.run(body, args)
        except (ValueError, AssertionError, KeyError, IndexError) as e:
            return dict(name=name, property="C17", verdict="inconclusive", detail="K=%d: %r" % (K, e), functions=[body.name])
        eqs = ["(= p_%d NEWP)" % i for i in range(K)]
        amo = ["(not (and %s %s))" % (eqs[i], eqs[j]) for i in range(K) for j in range(i + 1, K)]
        doc = "(= (discr DOCOPT) k_int_1)"
        for pc, ret, calls, env in paths:
            ncases += 1
            pcs = " ".join(pc) if pc else "true"
            ctx = "(and true %s %s)" % (pcs, " ".join(amo))
            ops = [(("insert" if "::insert" in c[0] else "remove"), c[1]) for c in calls if _re.search(r"^MultimapTable::<.*>::(insert|remove)", c[0])]
            is_ok = ret.startswith("(C_Ok ")
            # (a) unknown document: error, nothing written
            nq += 1
            if ops or is_ok:
                v, _ = solve(smt.script("(and %s (not %s))" % (ctx, doc)))
                if v != "unsat":
                    problems.append(("registering a peer for an unknown document fails and writes nothing", v, "K=%d" % K))
                    continue
            if not is_ok:
                v, _ = solve(smt.script("(and %s %s)" % (ctx, doc)))
                if v != "unsat":
                    problems.append(("registering a peer for a known document succeeds (storage errors aside)", v, "K=%d" % K))
                continue
            # (b) the MRU update
            bad_shape = False
            removed = [[] for _ in range(K)]
            n_ins = 0
            for kind, v in ops:
                if v[0] != st["PEERS_T"] or v[1] != "NSB" or not v[2].startswith("(C_tuple2 "):
                    bad_shape = True
                    break
                n, p = split_sexpr_args(v[2])
                if kind == "insert":
                    if (n, p) != ("NANOS", "(ref NEWP)"):
                        bad_shape = True
                        break
                    n_ins += 1
                else:
                    mj = _re.match(r"^n_(\d+)$", n)
                    if not mj:
                        bad_shape = True
                        break
                    j = int(mj.group(1))
                    if p == "(ref p_%d)" % j:
                        removed[j].append("true")
                    elif p == "(ref NEWP)":
                        removed[j].append(eqs[j])
                    else:
                        mo = _re.match(r"^\(ref p_(\d+)\)$", p)
                        if mo:
                            removed[j].append("(= p_%d p_%s)" % (j, mo.group(1)))
                        else:
                            bad_shape = True
                            break
            if bad_shape:
                problems.append(("every write goes to the document's peer row: insert (now, peer), remove a stored (time, peer) pair", "sat", "K=%d ops=%s" % (K, [(k, v[1:]) for k, v in ops][:3])))
                continue
            if n_ins < 1:
                problems.append(("a successful registration stores the peer with the current time", "sat", "K=%d" % K))
                continue
            any_eq = "(or false %s)" % " ".join(eqs)
            conj = []
            size_terms = []
            for j in range(K):
                rem = "(or false %s)" % " ".join(removed[j])
                exp = eqs[j]
                if j == 0 and K == SPEC_CACHE:
                    exp = "(or %s (not %s))" % (eqs[0], any_eq)
                conj.append("(= %s %s)" % (rem, exp))
                size_terms.append("(ite %s 0 1)" % rem)
            size = "(+ 1 0 %s)" % " ".join(size_terms)
            spec = "(and true %s (<= %s %d))" % (" ".join(conj), size, SPEC_CACHE)
            nq += 1
            v, _ = solve(smt.script("(and %s %s (not %s))" % (ctx, doc, spec)))
            if v != "unsat":
                problems.append(("registration is the MRU update: the registered peer's old row (and only it) is replaced; the oldest row is evicted only when five other peers are stored", v, "K=%d" % K))
    verdict = "holds"
    if any(p[1] == "inconclusive" for p in problems):
        verdict = "inconclusive"
    if any(p[1] != "inconclusive" for p in problems):
        verdict = "violated"
    return dict(name=name, property="C17", verdict=verdict, detail="K=0..%d, cache size in source=%d; paths=%d; problems: %s" % (SPEC_CACHE, cache_n, ncases, problems or "none"),
                functions=[body.name, "redb MultimapTable::{get,insert,remove}, MultimapValue::next, AccessGuard::value (modelled: sorted row of K pairs)"],
                queries=nq, cases=ncases, witness="c17",
                check_message=(problems[0][0] if problems else "registration is the MRU update"))


def q_c17_read_order(bodies):
    """C17, read side: the REAL `Store::get_sync_peers` (loop unrolled over the same K-row model)
    returns the stored peers newest first (p_{K-1} .. p_0), all of them, and `None` for an empty row."""
    import re as _re
    name = "c17_read_order"
    hits = find_body(bodies, r"^store::fs::.*::get_sync_peers$")
    fields = _tables_fields()
    cache_n = _c17_cache_size()
    if len(hits) != 1 or "namespace_peers" not in fields or cache_n is None:
        return dict(name=name, property="C17", verdict="inconclusive", detail="get_sync_peers not found uniquely (%d)" % len(hits), functions=[])
    body = hits[0]
    problems, nq, ncases = [], 0, 0
    for K in range(0, SPEC_CACHE + 1):
        smt = _c17_smt(K)
        st = {}
        models = _c17_models(smt, K, cache_n, fields, st)
        ex = Exec(bodies, smt, models=models, max_paths=4000, ctor=True, unroll=True)
        try:
            paths = ex.run(body, ["STORE", "NSID"])
        except (ValueError, AssertionError, KeyError, IndexError) as e:
            return dict(name=name, property="C17", verdict="inconclusive", detail="K=%d: %r" % (K, e), functions=[body.name])
        # normally ONE path per K (storage errors aside); whatever else the function branches on (an opaque condition), every
        # feasible path has to read the whole row
        for pc, ret, calls, env in paths:
            if len(paths) > 1:
                nq += 1
                if solve(smt.script("(and true %s)" % " ".join(pc)))[0] == "unsat":
                    continue
            ncases += 1
            pushed = list(env.get("__pushed", ()))
            want = ["p_%d" % i for i in reversed(range(K))]
            nq += 1
            tagp = "K=%d%s" % (K, (" path=%s" % [c[:70] for c in pc][:3]) if len(paths) > 1 else "")
            # the order is decided syntactically per path and confirmed by the solver (p_i are distinct constants)
            if len(pushed) != len(want):
                problems.append(("every remembered peer is returned, whatever else is true of the document (open or not)", "sat", tagp + " returned=%d" % len(pushed)))
                continue
            dis = "(distinct %s)" % " ".join(want) if K > 1 else "true"
            goal = "(and %s (not (and true %s)))" % (dis, " ".join("(= %s %s)" % (a, b) for a, b in zip(pushed, want)))
            v, _ = solve(smt.script(goal))
            if v != "unsat":
                problems.append(("peers are returned most recent first", v, tagp))
            some = ret.startswith("(C_Ok (C_Some ")
            if (K == 0) == some:
                problems.append(("an empty peer row reads as None, a non-empty one as Some", "sat", tagp))
    verdict = "holds"
    if any(p[1] == "inconclusive" for p in problems):
        verdict = "inconclusive"
    if any(p[1] != "inconclusive" for p in problems):
        verdict = "violated"
    return dict(name=name, property="C17", verdict=verdict, detail="K=0..%d; problems: %s" % (SPEC_CACHE, problems or "none"),
                functions=[body.name, "redb MultimapTable::get, MultimapValue::{rev,next}, AccessGuard::value (modelled)"],
                queries=nq, cases=ncases, witness="c17",
                check_message=(problems[0][0] if problems else "peers are returned most recent first"))


QUERIES["C17"] = [q_c17_register_step, q_c17_read_order]


# ------------------------------------------------------------------------------------------------
# C18: populate-if-empty migrations rebuild the derived tables exactly; reopening is a no-op
# ------------------------------------------------------------------------------------------------

def _compositions(n):
    """all ways to cut rows 0..n-1 into contiguous groups: list of group-index lists"""
    if n == 0:
        return [[]]
    out = []
    for mask in range(1 << (n - 1)):
        g, cur = [0], 0
        for i in range(1, n):
            if mask >> (i - 1) & 1:
                cur += 1
            g.append(cur)
        out.append(g)
    return out


def _c18_models(smt, K, groups, flags):
    """records table = K rows in key order; row i = ((ns_g, au_g, key_i), (ts_i, nsig_i, asig_i, len_i, hash_i)) with
    g = groups[i] (rows of one (namespace, author) pair are contiguous in the table's key order)."""
    from mirsmt import split_sexpr_args
    for f, n in (("C_Ok", 1), ("C_Some", 1), ("C_None", 0), ("C_Continue", 1), ("C_kguard", 3), ("C_vguard", 5), ("C_tuple2", 2), ("C_tuple3", 3),
                 ("C_tuple5", 5), ("C_entry", 1), ("tovec", 1), ("as_slice", 1), ("discr", 1)):
        smt.fun(f, n)
    for i in range(K):
        for c in ("key_%d", "ts_%d", "nsig_%d", "asig_%d", "len_%d", "hash_%d"):
            smt.decls.append("(declare-const %s V)" % (c % i))
        smt.asserts.append("(= (as_slice (ref (tovec key_%d))) key_%d)" % (i, i))
    for g in sorted(set(groups)):
        smt.decls.append("(declare-const ns_%d V)" % g)
        smt.decls.append("(declare-const au_%d V)" % g)
    for c in ("TX", "ITER", "MAP"):
        smt.decls.append("(declare-const %s V)" % c)

    def row(i):
        g = groups[i]
        return "(C_tuple2 (C_kguard ns_%d au_%d key_%d) (C_vguard ts_%d nsig_%d asig_%d len_%d hash_%d))" % (g, g, i, i, i, i, i, i)

    def m_open(ex, v):
        mt = re.search(r"tables__([A-Z_0-9]+)$", v[1])
        if not mt:
            raise ValueError("open_table on an unrecognised table constant %s" % v[1])
        return "(C_Ok TBL_%s)" % mt.group(1)

    def m_is_empty(ex, v):
        t = mk_deref(v[0])
        if t == "TBL_RECORDS_TABLE":
            return "(C_Ok (b2v %s))" % ("true" if K == 0 else "false")
        if t not in flags:
            raise ValueError("is_empty on an unexpected table %s" % t)
        return "(C_Ok (b2v %s))" % flags[t]

    def m_iter(ex, v, env):
        if mk_deref(v[0]) != "TBL_RECORDS_TABLE":
            raise ValueError("iter over an unexpected table %s" % v[0])
        env["__it"] = (0, K)
        return "(C_Ok ITER)"
    m_iter.wants_env = True

    def m_branch(ex, v):
        if v[0].startswith("(C_Ok "):
            return "(C_Continue %s)" % split_sexpr_args(v[0])[0]
        return "(%s %s)" % (smt.fun("call_branch", 1), v[0])

    def m_next(ex, v, env):
        lo, hi = env["__it"]
        if lo >= hi:
            return "C_None"
        env["__it"] = (lo + 1, hi)
        return "(C_Some (C_Ok %s))" % row(lo)
    m_next.wants_env = True

    def m_kvalue(ex, v):
        ns, au, key = split_sexpr_args(mk_deref(v[0]))
        return "(C_tuple3 (ref %s) (ref %s) %s)" % (ns, au, key)

    def m_vvalue(ex, v):
        ts, nsig, asig, ln, h = split_sexpr_args(mk_deref(v[0]))
        return "(C_tuple5 %s (ref %s) (ref %s) %s (ref %s))" % (ts, nsig, asig, ln, h)

    # --- HashMap<(ns, author), (timestamp, Vec<u8>)> as an insertion-ordered association list in the path environment
    def m_map_new(ex, v, env):
        env["__map"] = ()
        return "MAP"
    m_map_new.wants_env = True

    def m_entry(ex, v, env):
        # `Entry` as the enum it is (round-8 seed r8_c18_a matches on it): Occupied / Vacant decided by the association list
        # (keys are the syntactically distinct (namespace, author) constants of the grouping); payload = the key
        if any(k == v[1] for k, _, _ in env.get("__map", ())):
            return "(%s %s)" % (smt.fun("C_Occupied", 1), v[1])
        return "(%s %s)" % (smt.fun("C_Vacant", 1), v[1])
    m_entry.wants_env = True

    def _slot(env, keyterm):
        key = mk_deref(keyterm) if keyterm.startswith("(ref ") else keyterm
        for n, (k, ts, kv) in enumerate(env.get("__map", ())):
            if k == key:
                return n, key
        return None, key

    def _pair(val):
        if not val.startswith("(C_tuple2 "):
            raise ValueError("map value of an unexpected shape %s" % val[:60])
        return split_sexpr_args(val)

    def m_occ_get(ex, v, env):
        n, key = _slot(env, v[0])
        if n is None:
            raise ValueError("OccupiedEntry::get on an absent key")
        cell = "(ref CELL_%d)" % n
        smt.fun("CELL_%d" % n, 0)
        h = dict(env.get("__heap", {}))
        h[(cell, "0")], h[(cell, "1")] = env["__map"][n][1], env["__map"][n][2]
        env["__heap"] = h
        return cell
    m_occ_get.wants_env = True

    def m_occ_insert(ex, v, env):
        n, key = _slot(env, v[0])
        if n is None:
            raise ValueError("OccupiedEntry::insert on an absent key")
        ts, kv = _pair(v[1])
        mp = env["__map"]
        old = "(C_tuple2 %s %s)" % (mp[n][1], mp[n][2])
        env["__map"] = mp[:n] + ((key, ts, kv),) + mp[n + 1:]
        return old
    m_occ_insert.wants_env = True

    def m_vac_insert(ex, v, env):
        n, key = _slot(env, v[0])
        if n is not None:
            raise ValueError("VacantEntry::insert on a present key")
        ts, kv = _pair(v[1])
        env["__map"] = env.get("__map", ()) + ((key, ts, kv),)
        return smt.const("entry_ref")
    m_vac_insert.wants_env = True

    def closure_body(ex, idx):
        hits = find_body(ex.bodies, r"migration_001_populate_latest_table::\{closure#%d\}$" % idx)
        if len(hits) != 1:
            raise ValueError("closure#%d of migration_001 not found" % idx)
        return hits[0]

    def m_and_modify(ex, v, env):
        key = split_sexpr_args(v[0])[0]
        mp = env.get("__map", ())
        for n, (k, ts, kv) in enumerate(mp):
            if k == key:
                cell = "(ref CELL_%d)" % n
                smt.fun("CELL_%d" % n, 0)
                sub = Exec(ex.bodies, smt, models=ex.models, max_paths=64, ctor=True)
                paths = sub.run(closure_body(ex, 0), [v[1], cell], heap0={(cell, "0"): ts, (cell, "1"): kv})
                new_ts, new_kv = ts, kv
                for pc, ret, calls, e2 in paths:
                    c = "(and true %s)" % " ".join(pc)
                    h = e2.get("__heap", {})
                    new_ts = "(ite %s %s %s)" % (c, h[(cell, "0")], new_ts) if h[(cell, "0")] != ts else new_ts
                    new_kv = "(ite %s %s %s)" % (c, h[(cell, "1")], new_kv) if h[(cell, "1")] != kv else new_kv
                env["__map"] = mp[:n] + ((k, new_ts, new_kv),) + mp[n + 1:]
                break
        return v[0]
    m_and_modify.wants_env = True

    def m_or_insert_with(ex, v, env):
        key = split_sexpr_args(v[0])[0]
        mp = env.get("__map", ())
        if not any(k == key for k, _, _ in mp):
            sub = Exec(ex.bodies, smt, models=ex.models, max_paths=64, ctor=True)
            paths = sub.run(closure_body(ex, 1), [v[1]])
            if len(paths) != 1 or not paths[0][1].startswith("(C_tuple2 "):
                raise ValueError("or_insert_with closure: unexpected shape")
            ts, kv = split_sexpr_args(paths[0][1])
            env["__map"] = mp + ((key, ts, kv),)
        return smt.const("entry_ref")
    m_or_insert_with.wants_env = True

    def m_map_len(ex, v, env):
        return ex._konst("%d_usize" % len(env.get("__map", ())))
    m_map_len.wants_env = True

    def m_map_into_iter(ex, v, env):
        env["__mapit"] = 0
        return "MAPITER"
    m_map_into_iter.wants_env = True
    smt.decls.append("(declare-const MAPITER V)")

    def m_map_next(ex, v, env):
        n = env["__mapit"]
        mp = env.get("__map", ())
        if n >= len(mp):
            return "C_None"
        env["__mapit"] = n + 1
        k, ts, kv = mp[n]
        return "(C_Some (C_tuple2 %s (C_tuple2 %s %s)))" % (k, ts, kv)
    m_map_next.wants_env = True

    models = dict(_tracing_off_models())
    models.update({
        r"^WriteTransaction::open_table::<": m_open,
        r" as ReadableTableMetadata>::is_empty$": m_is_empty,
        r"^<Table<.*> as ReadableTable<.*>>::iter$": m_iter,
        r" as Try>::branch$": m_branch,
        r"^<redb::Range<.*> as Iterator>::next$": m_next,
        r"^<redb::Range<.*> as IntoIterator>::into_iter$": lambda ex, v: v[0],
        r"^AccessGuard::<'_, \(&\[u8; 32\], &\[u8; 32\], &\[u8\]\)>::value$": m_kvalue,
        r"^AccessGuard::<'_, \(u64, &\[u8; 64\], &\[u8; 64\], u64, &\[u8; 32\]\)>::value$": m_vvalue,
        r"^Table::<.*>::insert(::<.*>)?$": lambda ex, v: "(C_Ok C_None)",
        r"^HashMap::<.*>::new$": m_map_new,
        r"^HashMap::<.*>::entry$": m_entry,
        r"hash_map::OccupiedEntry::<.*>::get$": m_occ_get,
        r"hash_map::OccupiedEntry::<.*>::insert$": m_occ_insert,
        r"hash_map::VacantEntry::<.*>::insert$": m_vac_insert,
        r"hash_map::Entry::<.*>::and_modify::<": m_and_modify,
        r"hash_map::Entry::<.*>::or_insert_with::<": m_or_insert_with,
        r"^HashMap::<.*>::len$": m_map_len,
        r"^<HashMap<.*> as IntoIterator>::into_iter$": m_map_into_iter,
        r"^<std::collections::hash_map::IntoIter<.*> as Iterator>::next$": m_map_next,
        r"slice::<impl \[u8\]>::to_vec$": lambda ex, v: "(tovec %s)" % v[0],
        r"^Vec::<u8>::as_slice$": lambda ex, v: "(as_slice %s)" % v[0],
    })
    return models


def _c18_outcome(ret):
    """('skip'|'execute'|'err'|None, payload)"""
    if not ret.startswith("(C_Ok "):
        return ("err", None)
    if "Skip" in ret:
        return ("skip", None)
    m = re.search(r"Execute (\S+?)\)", ret)
    if m:
        return ("execute", m.group(1))
    return (None, None)


def q_c18_by_key_rebuild(bodies):
    """C18: the REAL `migration_004_populate_by_key_index` (loop unrolled over a records table of K rows).
    Decided for K = 0..4 and both answers of `by_key.is_empty()`: a non-empty index is left alone
    (Skip, no write: reopening an up-to-date database is a no-op); an empty one receives exactly one
    row (namespace, key, author) per records row (namespace, author, key), nothing else, and the
    outcome reports K rows."""
    from mirsmt import split_sexpr_args
    name = "c18_by_key_rebuild"
    hits = find_body(bodies, r"migration_004_populate_by_key_index$")
    if len(hits) != 1:
        return dict(name=name, property="C18", verdict="inconclusive", detail="migration_004 not found uniquely (%d)" % len(hits), functions=[])
    body = hits[0]
    problems, nq, ncases = [], 0, 0
    KMAX = 7 if THOROUGH else 4
    for K in range(0, KMAX + 1):
        for empty in ("true", "false"):
            smt = Smt()
            groups = list(range(K))
            models = _c18_models(smt, K, groups, {"TBL_RECORDS_BY_KEY_TABLE": empty})
            for t in ("TBL_RECORDS_BY_KEY_TABLE", "TBL_RECORDS_TABLE"):
                smt.decls.append("(declare-const %s V)" % t)
            ex = Exec(bodies, smt, models=models, max_paths=6000, ctor=True, unroll=True)
            try:
                paths = ex.run(body, ["TX"])
            except (ValueError, AssertionError, KeyError, IndexError) as e:
                return dict(name=name, property="C18", verdict="inconclusive", detail="K=%d: %r" % (K, e), functions=[body.name])
            if not paths:
                problems.append(("the migration terminates on some path", "inconclusive", "K=%d" % K))
                continue
            for pc, ret, calls, env in paths:
              ncases += 1
              nq += 1
              tag = "K=%d by_key empty=%s" % (K, empty)
              if pc:
                  # the table content fixes the outcome: a path that depends on anything else (e.g. on the value of a
                  # row) is decided with its condition as context
                  tag += " under a condition on the rows"
              ins = [c[1] for c in calls if re.search(r"^Table::<.*>::insert", c[0])]
              other = [c[0] for c in calls if re.search(r"::(remove|retain|retain_in|drain|delete_table|pop_first|pop_last|extract_if)\b", c[0])]
              kind, payload = _c18_outcome(ret)
              if kind == "err":
                  continue
              want = ["(C_tuple3 (ref ns_%d) key_%d (ref au_%d))" % (i, i, i) for i in range(K)]
              got = [v[1] for v in ins if v[0] == "(ref TBL_RECORDS_BY_KEY_TABLE)"]
              if empty == "false":
                  # a populated index is consistent with the records table (it is maintained by every write):
                  # writing rows it already holds changes nothing, anything else does
                  if other or len(got) != len(ins) or any(g not in want for g in got):
                      problems.append(("an index that is already populated is left as it is (reopening is a no-op)", "sat", tag))
                  continue
              if other or len(got) != len(ins):
                  problems.append(("the rebuild only inserts into the by-key index", "sat", tag))
                  continue
              if sorted(got) != sorted(want):
                  # syntactic mismatch: let the solver decide whether the rows can differ on this path
                  ctx = " ".join(pc) if pc else "true"
                  goal = "(and %s (not (and true %s)))" % (ctx, " ".join("(= %s %s)" % (a, b) for a, b in zip(got, want))) if len(got) == len(want) else "(and true %s)" % ctx
                  v, _ = solve(smt.script(goal))
                  if v != "unsat":
                      problems.append(("the rebuilt index holds exactly one (namespace, key, author) row per stored entry", v, tag))
                      continue
              if kind != "execute" or payload != "k_%d_usize" % K:
                  problems.append(("the migration reports the number of rows it wrote", "sat", tag + " ret=" + ret[:80]))
    verdict = "holds"
    if any(p[1] == "inconclusive" for p in problems):
        verdict = "inconclusive"
    if any(p[1] != "inconclusive" for p in problems):
        verdict = "violated"
    return dict(name=name, property="C18", verdict=verdict, detail="K=0..%d; problems: %s" % (KMAX, problems or "none"),
                functions=[body.name, "redb open_table/is_empty/iter/insert (modelled: K rows in key order)"], queries=nq, cases=ncases, witness="c18",
                check_message=(problems[0][0] if problems else "the rebuilt index holds exactly one row per stored entry"))


def q_c18_heads_rebuild(bodies):
    """C18: the REAL `migration_001_populate_latest_table` and its two closures (both loops unrolled; the
    HashMap is an association list; `and_modify`/`or_insert_with` run the real closure bodies).
    Decided for K = 0..3 rows and every way of cutting them into contiguous (namespace, author)
    groups, timestamps symbolic under one total preorder: a populated head table, or an empty records
    table, is left alone; otherwise exactly one head row per (namespace, author) is written and it is
    (ts_i, key_i) of a row i of that author whose timestamp is not older than any other row of that
    author — the head a store that maintained it all along reports (C13)."""
    from mirsmt import split_sexpr_args
    name = "c18_heads_rebuild"
    hits = find_body(bodies, r"migration_001_populate_latest_table$")
    if len(hits) != 1:
        return dict(name=name, property="C18", verdict="inconclusive", detail="migration_001 not found uniquely (%d)" % len(hits), functions=[])
    body = hits[0]
    problems, nq, ncases = [], 0, 0
    KMAX = 5 if THOROUGH else 3
    for K in range(0, KMAX + 1):
        for groups in _compositions(K):
            for empty in ("true", "false"):
                smt = Smt()
                smt.decls.append("(declare-fun ge (V V) Bool)")
                models = _c18_models(smt, K, groups, {"TBL_LATEST_PER_AUTHOR_TABLE": empty})
                for t in ("TBL_LATEST_PER_AUTHOR_TABLE", "TBL_RECORDS_TABLE"):
                    smt.decls.append("(declare-const %s V)" % t)
                ex = Exec(bodies, smt, models=models, max_paths=6000, ctor=True, unroll=True)
                try:
                    paths = ex.run(body, ["TX"])
                except (ValueError, AssertionError, KeyError, IndexError) as e:
                    return dict(name=name, property="C18", verdict="inconclusive", detail="K=%d groups=%s: %r" % (K, groups, e), functions=[body.name])
                ncases += 1
                tag = "K=%d groups=%s heads empty=%s" % (K, groups, empty)
                if not paths:
                    problems.append(("the migration terminates on some path", "inconclusive", tag))
                    continue
                before = len(problems)
                for pc, ret, calls, env in paths[:64]:
                    if len(problems) > before:
                        break
                    ctx_pc = " ".join(pc)
                    ins = [c[1] for c in calls if re.search(r"^Table::<.*>::insert", c[0])]
                    other = [c[0] for c in calls if re.search(r"::(remove|retain|retain_in|drain|delete_table|pop_first|pop_last|extract_if)\b", c[0])]
                    kind, payload = _c18_outcome(ret)
                    if empty == "false" or K == 0:
                        if kind != "skip" or ins or other:
                            problems.append(("a populated head table (or an empty store) is left untouched (reopening is a no-op)", "sat", tag))
                        continue
                    ngroups = len(set(groups))
                    if other or any(v[0] != "(ref TBL_LATEST_PER_AUTHOR_TABLE)" for v in ins):
                        problems.append(("the rebuild only inserts into the head table", "sat", tag))
                        continue
                    by_group = {}
                    bad = False
                    for v in ins:
                        mk = re.match(r"^\(C_tuple2 \(ref ns_(\d+)\) \(ref au_(\d+)\)\)$", v[1])
                        if not mk or mk.group(1) != mk.group(2) or not v[2].startswith("(C_tuple2 "):
                            bad = True
                            break
                        by_group.setdefault(int(mk.group(1)), []).append(split_sexpr_args(v[2]))
                    if bad or sorted(by_group) != list(range(ngroups)) or any(len(x) != 1 for x in by_group.values()):
                        problems.append(("exactly one head row is written per (namespace, author) present in the records table", "sat", tag))
                        continue
                    # order facts: every Ge test in any term is the total preorder `ge`
                    allterms = " ".join(" ".join(v) for v in ins) + " " + ctx_pc   # comparisons may also sit in the path condition (a `match` on the entry forks)
                    extra = []
                    for op, a, b2 in _find_ops(allterms):
                        t = "(op_%s %s %s)" % (op, a, b2)
                        d = {"Ge": "(ge %s %s)" % (a, b2), "Gt": "(not (ge %s %s))" % (b2, a), "Le": "(ge %s %s)" % (b2, a), "Lt": "(not (ge %s %s))" % (a, b2)}[op]
                        extra.append("(= (v2b %s) %s)" % (t, d))
                    tss = ["ts_%d" % i for i in range(K)]
                    for a in tss:
                        extra.append("(ge %s %s)" % (a, a))
                        for b2 in tss:
                            extra.append("(or (ge %s %s) (ge %s %s))" % (a, b2, b2, a))
                            for c in tss:
                                extra.append("(=> (and (ge %s %s) (ge %s %s)) (ge %s %s))" % (a, b2, b2, c, a, c))
                    spec = []
                    for g, rows in by_group.items():
                        TS, KEYS = rows[0]
                        members = [i for i in range(K) if groups[i] == g]
                        alts = []
                        for i in members:
                            alts.append("(and (= %s ts_%d) (= %s key_%d) %s)" % (TS, i, KEYS, i, " ".join("(ge ts_%d ts_%d)" % (i, j) for j in members)))
                        spec.append("(or false %s)" % " ".join(alts))
                    nq += 1
                    v, _ = solve(smt.script("(and true %s %s (not (and true %s)))" % (ctx_pc, " ".join(extra), " ".join(spec))))
                    if v != "unsat":
                        problems.append(("the rebuilt head of an author is the (timestamp, key) of one of the author's entries with the greatest timestamp", v, tag))
                        continue
                    if kind != "execute" or payload != "k_%d_usize" % ngroups:
                        problems.append(("the migration reports the number of heads it wrote", "sat", tag + " ret=" + ret[:80]))
                if len(paths) > 64 and len(problems) == before:
                    problems.append(("the migration has a bounded number of outcomes per table content", "inconclusive", tag + " paths=%d" % len(paths)))
    verdict = "holds"
    if any(p[1] == "inconclusive" for p in problems):
        verdict = "inconclusive"
    if any(p[1] != "inconclusive" for p in problems):
        verdict = "violated"
    return dict(name=name, property="C18", verdict=verdict, detail="K=0..%d, all contiguous groupings; cases=%d; problems: %s" % (KMAX, ncases, problems or "none"),
                functions=[body.name, body.name + "::{closure#0}", body.name + "::{closure#1}", "redb open_table/is_empty/iter/insert, std HashMap entry API (modelled)"],
                queries=nq, cases=ncases, witness="c18",
                check_message=(problems[0][0] if problems else "the rebuilt head of an author is its greatest-timestamp entry"))


def q_c18_run_migration(bodies):
    """C18: the REAL `run_migrations` / `run_migration` drivers (loop-free).  `run_migrations` reaches its
    Ok return only after handing migration_001 and migration_004 to `run_migration` on the database it was
    given; `run_migration` commits the write transaction it opened whenever the migration answers
    `Execute` and reports success only then (a `Skip` needs no commit: nothing was written)."""
    name = "c18_run_migration"
    h1 = find_body(bodies, r"^run_migrations$")
    h2 = find_body(bodies, r"^run_migration$")
    src = open(REPO + "/src/store/fs/migrations.rs").read()
    me = re.search(r"enum MigrateOutcome \{(.*?)\}", src, re.S)
    variants = re.findall(r"^\s*(\w+)", me.group(1), re.M) if me else []
    if len(h1) != 1 or len(h2) != 1 or "Execute" not in variants:
        return dict(name=name, property="C18", verdict="inconclusive", detail="run_migration(s) / MigrateOutcome not found uniquely", functions=[])
    exe = variants.index("Execute")
    problems, nq, ncases = [], 0, 0
    # --- run_migration
    smt = Smt()
    for f, n in (("C_Ok", 1), ("C_Continue", 1), ("discr", 1)):
        smt.fun(f, n)
    for c in ("DB", "F", "TXV", "OUTCOME"):
        smt.decls.append("(declare-const %s V)" % c)
    from mirsmt import split_sexpr_args

    def m_branch(ex, v):
        if v[0].startswith("(C_Ok "):
            return "(C_Continue %s)" % split_sexpr_args(v[0])[0]
        return "(%s %s)" % (smt.fun("call_branch", 1), v[0])
    models = dict(_tracing_off_models())
    models.update({
        r"^Database::begin_write$": lambda ex, v: "(C_Ok TXV)" if v[0] == "DB" else "(C_Ok OTHER_TX)",
        r"^<F as Fn<\(&WriteTransaction,\)>>::call$": lambda ex, v: "(C_Ok OUTCOME)",
        r"^WriteTransaction::commit$": lambda ex, v: "(C_Ok %s)" % ex._konst("unit"),
        r" as Try>::branch$": m_branch,
    })
    ex = Exec(bodies, smt, models=models, max_paths=4000, ctor=True)
    try:
        paths = ex.run(h2[0], ["DB", "F"])
    except (ValueError, AssertionError, KeyError, IndexError) as e:
        return dict(name=name, property="C18", verdict="inconclusive", detail="run_migration: %r" % (e,), functions=[h2[0].name])
    is_exec = "(= (discr OUTCOME) k_int_%d)" % exe
    ok_paths = 0
    for pc, ret, calls, env in paths:
        ncases += 1
        if not ret.startswith("(C_Ok "):
            continue
        ok_paths += 1
        commits = [c for c in calls if re.search(r"^WriteTransaction::commit$", c[0]) and c[1] and c[1][0] == "TXV"]
        called = [c for c in calls if re.search(r"^<F as Fn<", c[0])]
        if not called:
            problems.append(("run_migration runs the migration it was given", "sat", ""))
            continue
        if not commits:
            nq += 1
            v, _ = solve(smt.script("(and true %s %s)" % (" ".join(pc), is_exec)))
            if v != "unsat":
                problems.append(("a migration that wrote rows (Execute) is committed before success is reported", v, ""))
    if ok_paths == 0:
        problems.append(("run_migration has a success path", "inconclusive", ""))
    # --- run_migrations
    smt2 = Smt()
    for f, n in (("C_Ok", 1), ("C_Continue", 1), ("discr", 1)):
        smt2.fun(f, n)
    smt2.decls.append("(declare-const DB V)")
    models2 = dict(_tracing_off_models())
    models2.update({r"^run_migration::<": lambda ex, v: "(C_Ok %s)" % smt2.const("migration_result"), r" as Try>::branch$": m_branch})
    ex2 = Exec(bodies, smt2, models=models2, max_paths=4000, ctor=True)
    try:
        paths2 = ex2.run(h1[0], ["DB"])
    except (ValueError, AssertionError, KeyError, IndexError) as e:
        return dict(name=name, property="C18", verdict="inconclusive", detail="run_migrations: %r" % (e,), functions=[h1[0].name])
    okp = [p for p in paths2 if p[1].startswith("(C_Ok ")]
    if not okp:
        problems.append(("run_migrations has a success path", "inconclusive", ""))
    for pc, ret, calls, env in okp:
        ncases += 1
        ran = [(re.search(r"run_migration::<.*?(migration_\d+_\w+)", c[0]) or [None, "?"])[1] for c in calls if c[0].startswith("run_migration::<") and c[1] and c[1][0] == "DB"]
        for need in ("migration_001_populate_latest_table", "migration_004_populate_by_key_index"):
            if need not in ran:
                problems.append(("opening a store runs the populate-if-empty migration %s on its database" % need, "sat", "ran=%s" % ran))
    verdict = "holds"
    if any(p[1] == "inconclusive" for p in problems):
        verdict = "inconclusive"
    if any(p[1] != "inconclusive" for p in problems):
        verdict = "violated"
    return dict(name=name, property="C18", verdict=verdict, detail="run_migration paths=%d (ok %d), run_migrations ok paths=%d; problems: %s" % (len(paths), ok_paths, len(okp), problems or "none"),
                functions=[h1[0].name, h2[0].name], queries=nq, cases=ncases, witness="c18",
                check_message=(problems[0][0] if problems else "migrations that write are committed"))


QUERIES["C18"] = [q_c18_by_key_rebuild, q_c18_heads_rebuild, q_c18_run_migration]


# ------------------------------------------------------------------------------------------------
# C06: transaction glue — flush commits; which store accesses may commit; is a write one transaction?
# ------------------------------------------------------------------------------------------------

def graph_reach(body, src_pred, dst_pred):
    """Propositional reachability over the real block graph of a (non-coroutine) body: can a block
    satisfying dst_pred be entered after a block satisfying src_pred has been executed?  Branch
    conditions are free.  Encoded as the non-existence of an inductive invariant; decided by z3+cvc5.
    Returns (True/False/None, stats)."""
    L = ["(set-logic QF_UF)"]
    nm = {}
    for bn in body.blocks:
        for f in ("T", "F"):
            nm[(bn, f)] = "inv_%s_%s" % (bn, f)
            L.append("(declare-const %s Bool)" % nm[(bn, f)])
    srcs = {bn for bn, b in body.blocks.items() if src_pred(bn, b)}
    dsts = {bn for bn, b in body.blocks.items() if dst_pred(bn, b)}
    L.append("(assert %s)" % nm[("bb0", "F")])
    edges = 0
    for bn in body.blocks:
        for s2 in body.successors(bn):
            if s2 not in body.blocks:
                continue
            edges += 1
            for f in ("T", "F"):
                post = "T" if (bn in srcs or f == "T") else "F"
                L.append("(assert (=> %s %s))" % (nm[(bn, f)], nm[(s2, post)]))
    for d in dsts:
        L.append("(assert (not %s))" % nm[(d, "T")])
    L.append("(check-sat)")
    verdict, _ = solve("\n".join(L), timeout=120)
    return {"unsat": True, "sat": False}.get(verdict), {"blocks": len(body.blocks), "edges": edges, "sources": len(srcs), "targets": len(dsts)}


def _c06_txn_variants():
    src = open(REPO + "/src/store/fs.rs").read()
    m = re.search(r"enum CurrentTransaction \{(.*?)\n\}", src, re.S)
    if not m:
        return []
    return re.findall(r"^\s{4}(\w+)", m.group(1), re.M)


def _c06_store_method(bodies, method):
    hits = find_body(bodies, r"^store::fs::<impl at src/store/fs.rs:\d+:\d+: \d+:\d+>::%s$" % re.escape(method), r"&mut store::fs::Store")
    return hits[0] if len(hits) == 1 else None


def _c06_resolve(bodies, method, args):
    """follow thin wrappers (`fn modify(f) { self.modify_impl(true, f) }`) to the body that handles the
    transaction; returns (body, args, chain) or (None, reason, chain)"""
    chain = []
    for _ in range(4):
        body = _c06_store_method(bodies, method)
        if body is None:
            return None, "store method %s not found uniquely" % method, chain
        chain.append(body.name)
        text = " ".join(" ".join(b) for b in body.blocks.values())
        if "std::mem::take::<CurrentTransaction>" in text:
            return body, args, chain
        calls = [b[-1] for b in body.blocks.values() if b and re.search(r"= store::fs::Store::\w+::<", b[-1])]
        if len(calls) != 1 or len(body.blocks) > 4:
            return None, "store method %s is neither a transaction handler nor a thin wrapper" % method, chain
        sp = Exec._split_call(calls[0])
        callee, argtxt = sp[1], sp[2]
        method = re.match(r"^store::fs::Store::(\w+)::<", callee).group(1)
        new_args = []
        for a in Exec.split_args(argtxt):
            a = re.sub(r"^(copy|move) ", "", a.strip())
            m = re.match(r"^_(\d+)$", a)
            if m and int(m.group(1)) <= len(args):
                new_args.append(args[int(m.group(1)) - 1])
            elif a in ("const true", "const false"):
                new_args.append("(b2v %s)" % a[6:])
            else:
                return None, "wrapper %s passes an argument this query does not follow: %s" % (body.name, a), chain
        args = new_args
    return None, "wrapper chain too long", chain


def _c06_paths(bodies, body, args):
    from mirsmt import split_sexpr_args
    smt = Smt()
    for f, n in (("C_Ok", 1), ("C_Continue", 1), ("discr", 1)):
        smt.fun(f, n)
    for c in ("STORE", "TAKEN", "F", "AGE_GT"):
        smt.decls.append("(declare-const %s V)" % c)

    def m_branch(ex, v):
        if v[0].startswith("(C_Ok "):
            return "(C_Continue %s)" % split_sexpr_args(v[0])[0]
        return "(%s %s)" % (smt.fun("call_branch", 1), v[0])
    models = dict(_tracing_off_models())
    models.update({
        r"^std::mem::take::<CurrentTransaction>$": lambda ex, v: "TAKEN",
        r"^Database::begin_(write|read)$": lambda ex, v: "(C_Ok %s)" % smt.const("fresh_tx"),
        r"^TransactionAndTables::new$|^ReadOnlyTables::new$": lambda ex, v: "(C_Ok (%s %s))" % (smt.fun("tables_of", 1), v[0]),
        r"^TransactionAndTables::commit$": lambda ex, v: "(C_Ok %s)" % ex._konst("unit"),
        # the caller's closure may succeed or fail: an opaque result (its `?` then forks into both arms)
        r"^TransactionAndTables::with_tables_mut::<": lambda ex, v: smt.const("f_result"),
        r"^<Duration as PartialOrd>::gt$": lambda ex, v: "AGE_GT",
        r" as Try>::branch$": m_branch,
    })
    ex = Exec(bodies, smt, models=models, max_paths=6000, ctor=True)
    return smt, ex.run(body, args)



_C06_COMMIT_RE = r"^TransactionAndTables::\w+$"


def _c06_commit_calls(calls):
    """indices of calls that end the open write transaction: every consuming TransactionAndTables method
    other than the accessors (commit and anything a change may add next to it)"""
    return [i for i, c in enumerate(calls) if re.match(_C06_COMMIT_RE, c[0]) and not re.search(r"::(new|tables|with_tables_mut)$", c[0])]


def _c06_may_commit(bodies, method, memo=None, depth=0):
    """can `Store::<method>` make the open write transaction durable-or-gone (commit it / replace it)?
    True / False / None (unknown shape).  Thin wrappers and callees are followed."""
    memo = {} if memo is None else memo
    if method in memo:
        return memo[method]
    memo[method] = False  # recursion guard
    body = _c06_store_method(bodies, method)
    if body is None or depth > 4:
        memo[method] = None
        return None
    text_calls = [b[-1] for b in body.blocks.values() if b]
    direct = any(re.search(r"= TransactionAndTables::(?!new|tables\b|with_tables_mut)\w+\(", t) for t in text_calls)
    res = direct
    for t in text_calls:
        m = re.search(r"= store::fs::Store::(\w+)(::<.*>)?\(", t)
        if m and m.group(1) != method:
            sub = _c06_may_commit(bodies, m.group(1), memo, depth + 1)
            if sub is None:
                res = None if not res else res
            elif sub:
                res = True
    memo[method] = res
    return res


def _c06_access_methods(bodies):
    """names of the Store methods through which iroh-docs code reaches the write transaction: every
    `store::fs::Store::<m>::<..>(..)` callee whose resolved body runs a caller-supplied closure"""
    names = set()
    for name, bl in bodies.items():
        for body in bl:
            for b in body.blocks.values():
                if b:
                    m = re.search(r"= store::fs::Store::(\w+)::<[^(]*impl FnOnce\(&mut Tables\)|= store::fs::Store::(\w+)::<", b[-1])
                    if m:
                        names.add(m.group(1) or m.group(2))
    out = []
    for n in sorted(names):
        body, args, chain = _c06_resolve(bodies, n, ["STORE", "F"])
        if body is not None and any("with_tables_mut" in " ".join(b) for b in body.blocks.values()):
            out.append(n)
    return out


def q_c06_txn_glue(bodies):
    """C06 glue, decided over all paths of the REAL `Store::flush`, `Store::tables` and every `Store`
    method that runs a caller's closure on the write transaction (`modify` and its variants; thin
    wrappers are followed with their constant arguments).  Tracing side paths answer 'disabled'; redb
    calls answer Ok.
    * `flush` commits an open write transaction (and only that) before it reports success;
    * the access methods commit the open write transaction only behind the age test, always BEFORE the
      caller's closure runs / the tables are handed out, never after — so one store access is one
      transaction piece: a single closure is never split by a commit."""
    name = "c06_txn_glue"
    variants = _c06_txn_variants()
    hf = _c06_store_method(bodies, "flush")
    ht = _c06_store_method(bodies, "tables")
    methods = _c06_access_methods(bodies)
    if hf is None or ht is None or "modify" not in methods or "Write" not in variants:
        return dict(name=name, property="C06", verdict="inconclusive", detail="flush/tables/modify/CurrentTransaction not found (%s %s)" % (methods, variants), functions=[])
    W = variants.index("Write")
    is_write = "(= (discr TAKEN) k_int_%d)" % W
    problems, nq, ncases = [], 0, 0
    funcs = [hf.name, ht.name]
    try:
        smt, paths = _c06_paths(bodies, hf, ["STORE"])
        for pc, ret, calls, env in paths:
            ncases += 1
            commits = [c for c in calls if c[0] == "TransactionAndTables::commit"]
            other_end = [c for c in calls if re.match(_C06_COMMIT_RE, c[0]) and not re.search(r"::(new|tables|with_tables_mut|commit)$", c[0])]
            if other_end:
                problems.append(("flush ends the open write transaction with TransactionAndTables::commit (the durable commit)", "sat"))
            if ret.startswith("(C_Ok ") and not commits:
                nq += 1
                v, _ = solve(smt.script("(and true %s %s)" % (" ".join(pc), is_write)))
                if v != "unsat":
                    problems.append(("flush reports success only after committing the open write transaction", v))
            if commits:
                nq += 1
                v, _ = solve(smt.script("(and true %s (not %s))" % (" ".join(pc), is_write)))
                if v != "unsat":
                    problems.append(("flush commits nothing but the open write transaction", v))
        may_commit = {}
        memo_mc = {}
        todo = [("tables", ht, ["STORE"])]
        for mname in methods:
            body, args, chain = _c06_resolve(bodies, mname, ["STORE", "F"])
            if body is None:
                return dict(name=name, property="C06", verdict="inconclusive", detail=args, functions=chain)
            funcs += [c for c in chain if c not in funcs]
            todo.append((mname, body, args))
        for label, body, args in todo:
            smt, paths = _c06_paths(bodies, body, args)
            may_commit[label] = False
            for pc, ret, calls, env in paths:
                ncases += 1
                names = [c[0] for c in calls]
                ci = _c06_commit_calls(calls) + [i for i, n in enumerate(names) if re.match(r"^store::fs::Store::(\w+)", n) and _c06_may_commit(bodies, re.match(r"^store::fs::Store::(\w+)", n).group(1), memo_mc) is not False]
                fi = [i for i, n in enumerate(names) if n.startswith("TransactionAndTables::with_tables_mut::<")]
                if ci:
                    may_commit[label] = True
                    nq += 1
                    v, _ = solve(smt.script("(and true %s (not (and %s (v2b AGE_GT))))" % (" ".join(pc), is_write)))
                    if v != "unsat":
                        problems.append(("%s commits only an open write transaction that is older than the commit delay" % label, v))
                    if fi and max(ci) > min(fi):
                        problems.append(("%s never commits after the caller's closure ran" % label, "sat"))
                if any(re.search(r"set_durability|set_two_phase_commit|set_quick_repair", n) for n in names):
                    problems.append(("the write transaction every access shares keeps redb's default durability (a flush is only durable if the transaction it commits is)", "sat"))
                if label != "tables" and ret.startswith("(C_Ok ") and len(fi) != 1:
                    problems.append(("%s runs the caller's closure exactly once on its success path" % label, "sat"))
                # what the access leaves in the store's transaction slot: a write transaction — the one that was open, unless it
                # was committed behind the age test — never nothing (dropping an open write transaction discards the writes
                # made through it, which earlier operations already acknowledged)
                gw = [w for w in env.get("__writes", []) if w[0] == "deref-write"]
                took = any(n == "std::mem::take::<CurrentTransaction>" for n in names)
                if took and not gw:
                    # (begin_write / TransactionAndTables::new / commit answer Ok in this query, so nothing but the glue can leave early)
                    problems.append(("%s puts a write transaction back into the store's slot on every way out, also when the caller's closure fails (an open transaction that is dropped takes the acknowledged writes of earlier operations with it)" % label, "sat"))
                if gw:
                    last = gw[-1][2]
                    if not last.startswith("(mk_CurrentTransaction__Write "):
                        problems.append(("%s leaves the open write transaction in place whatever the caller's closure returns (acknowledged writes of earlier operations live in it)" % label, "sat"))
                    elif not ci:
                        nq += 1
                        v, _ = solve(smt.script("(and true %s %s (not (= %s (mk_CurrentTransaction__Write (fld_0 (as_Write TAKEN))))))" % (" ".join(pc), is_write, last)))
                        if v != "unsat":
                            problems.append(("%s keeps using the write transaction that was open (it is replaced only after a commit)" % label, v))
        # the read-side accesses end an open write transaction with the same durable commit
        for mname in ("snapshot", "snapshot_owned"):
            b = _c06_store_method(bodies, mname)
            if b is None:
                continue
            funcs.append(b.name)
            smt, paths = _c06_paths(bodies, b, ["STORE"])
            for pc, ret, calls, env in paths:
                ncases += 1
                ended = [c for c in calls if re.match(_C06_COMMIT_RE, c[0]) and not re.search(r"::(new|tables|with_tables_mut|commit)$", c[0])]
                if ended:
                    problems.append(("%s ends an open write transaction with TransactionAndTables::commit (the durable commit), so that a later flush has nothing left to do" % mname, "sat"))
        hc = find_body(bodies, r"^tables::<impl at src/store/fs/tables.rs:\d+:\d+: \d+:\d+>::commit$")
        if len(hc) == 1:
            funcs.append(hc[0].name)
            ctext = " ".join(" ".join(bl) for bl in hc[0].blocks.values())
            ncases += 1
            if "WriteTransaction::commit(" not in ctext or "set_durability" in ctext or "set_two_phase" in ctext:
                problems.append(("TransactionAndTables::commit is redb's plain (durable) commit of the owned transaction", "sat"))
        else:
            problems.append(("TransactionAndTables::commit found", "inconclusive"))
    except (ValueError, AssertionError, KeyError, IndexError) as e:
        return dict(name=name, property="C06", verdict="inconclusive", detail=repr(e), functions=funcs)
    verdict = "holds"
    if any(p[1] == "inconclusive" for p in problems):
        verdict = "inconclusive"
    if any(p[1] != "inconclusive" for p in problems):
        verdict = "violated"
    return dict(name=name, property="C06", verdict=verdict, detail="paths=%d; age-commit possible in: %s; problems: %s" % (ncases, may_commit, problems or "none"),
                functions=funcs, queries=nq, cases=ncases, witness="c06,c06err,c06dur",
                check_message=(problems[0][0] if problems else "flush commits; one store access is never split by a commit"))


def q_c06_put_atomic(bodies):
    """C06, half-applied writes.  An insert is `ranger::Store::put`: prune the entries the new one
    supersedes (`remove_prefix_filtered`), then write it (`entry_put`) — two separate accesses of the
    file-backed store.  The crash image shows the last COMMITTED state, so the insert is atomic iff no
    commit can fall between the two.  Decided from the real MIR:
      A. the `Store` access method that `entry_put` goes through (thin wrappers followed with their
         constant arguments) has a feasible path that commits the open transaction and then runs the closure;
      B. in `ranger::Store::put` a call of `entry_put` is reachable after a call of `remove_prefix_filtered`;
      C. the store's `remove_prefix_filtered` and `entry_put` cannot return without such an access.
    A and B and C  =>  a commit between prune and write is possible: violated (confirmed natively by
    forcing the age test at each access in turn and imaging the database file)."""
    name = "c06_put_atomic"
    variants = _c06_txn_variants()
    hp = find_body(bodies, r"^ranger::Store::put$")
    hr = find_body(bodies, r"^store::fs::<impl at src/store/fs.rs:\d+:\d+: \d+:\d+>::remove_prefix_filtered$")
    he = find_body(bodies, r"^store::fs::<impl at src/store/fs.rs:\d+:\d+: \d+:\d+>::entry_put$")
    hover = find_body(bodies, r"^store::fs::<impl at src/store/fs.rs:\d+:\d+: \d+:\d+>::put$")
    if len(hp) != 1 or len(hr) != 1 or len(he) != 1 or "Write" not in variants:
        return dict(name=name, property="C06", verdict="inconclusive", detail="bodies not found uniquely (%d %d %d)" % (len(hp), len(hr), len(he)), functions=[])
    if hover:
        return dict(name=name, property="C06", verdict="inconclusive", detail="the file-backed store overrides put: this query does not know its shape", functions=[hover[0].name])
    nq = 0
    ACC = r"= store::fs::Store::(\w+)(?:::<.*>)?\("
    access = lambda bn, bl: bool(bl) and re.search(ACC, bl[-1]) is not None  # noqa
    Cs, used = [], {}
    for b in (hr[0], he[0]):
        nq += 1
        ret_blocks = [bn for bn, bl in b.blocks.items() if bl and bl[-1].startswith("return")]
        skip, _ = _reach_avoiding(b, access, ret_blocks)
        ms = sorted({re.search(ACC, bl[-1]).group(1) for bn, bl in b.blocks.items() if access(bn, bl)})
        used[b.name.rsplit("::", 1)[1]] = ms
        Cs.append(skip is False and len(ms) >= 1)
    # A: any Store method entry_put goes through may commit (before its closure, after it, or as a side effect)
    A, chains, npaths, memo_mc, why = False, [], 0, {}, []
    for mname in used.get("entry_put", []):
        body, args, chain = _c06_resolve(bodies, mname, ["STORE", "F"])
        if body is None:
            mc = _c06_may_commit(bodies, mname, memo_mc)
            if mc is None:
                return dict(name=name, property="C06", verdict="inconclusive", detail="cannot tell whether Store::%s commits" % mname, functions=chain)
            if mc:
                A = True
                why.append("%s ends the open transaction" % mname)
            continue
        chains += chain
        try:
            smt, paths = _c06_paths(bodies, body, args)
        except (ValueError, AssertionError, KeyError, IndexError) as e:
            return dict(name=name, property="C06", verdict="inconclusive", detail=repr(e), functions=chain)
        npaths += len(paths)
        for pc, ret, calls, env in paths:
            names = [c[0] for c in calls]
            ci = _c06_commit_calls(calls) + [i for i, n in enumerate(names) if re.match(r"^store::fs::Store::(\w+)", n) and _c06_may_commit(bodies, re.match(r"^store::fs::Store::(\w+)", n).group(1), memo_mc) is not False]
            if ci:
                nq += 1
                v, _ = solve(smt.script("(and true %s)" % " ".join(pc)))
                if v == "sat":
                    A = True
                    why.append("%s can commit" % mname)
                elif v != "unsat":
                    return dict(name=name, property="C06", verdict="inconclusive", detail="feasibility of the commit path: %s" % v, functions=chain)
    call = lambda pat: (lambda bn, b: bool(b) and re.search(r"= <[^>]*Self as ranger::Store<E>>::%s(::<.*>)?\(|= ranger::Store::%s(::<.*>)?\(" % (pat, pat), b[-1]) is not None)  # noqa
    nq += 1
    B, statsB = graph_reach(hp[0], call("remove_prefix_filtered"), call("entry_put"))
    if B is None or statsB["sources"] == 0 or statsB["targets"] == 0:
        return dict(name=name, property="C06", verdict="inconclusive", detail="put does not call remove_prefix_filtered/entry_put in the recognised form: %s" % statsB, functions=[hp[0].name])
    violated = A and B and all(Cs)
    detail = "A (a store access used by entry_put %s may commit) = %s; B (entry_put after remove_prefix_filtered in put) = %s %s; C (both go through a store access %s) = %s" % (
        used.get("entry_put"), A, B, statsB, used, Cs)
    return dict(name=name, property="C06", verdict="violated" if violated else "holds", detail=detail,
                functions=chains + [hp[0].name, hr[0].name, he[0].name], queries=nq, cases=npaths + 3, witness="c06",
                check_message="an insert is one transaction: no commit can fall between pruning the superseded entries and writing the new one")


def _reach_avoiding(body, avoid_pred, targets):
    """can a target block be reached from bb0 without executing a block satisfying avoid_pred?  (z3+cvc5)"""
    L = ["(set-logic QF_UF)"]
    for bn in body.blocks:
        L.append("(declare-const r_%s Bool)" % bn)
    L.append("(assert r_bb0)")
    for bn, b in body.blocks.items():
        if avoid_pred(bn, b):
            continue
        for s2 in body.successors(bn):
            if s2 in body.blocks:
                L.append("(assert (=> r_%s r_%s))" % (bn, s2))
    for t in targets:
        L.append("(assert (not r_%s))" % t)
    L.append("(check-sat)")
    verdict, _ = solve("\n".join(L), timeout=60)
    return {"unsat": True, "sat": False}.get(verdict), {}


QUERIES["C06"] = [q_c06_txn_glue, q_c06_put_atomic]


# ------------------------------------------------------------------------------------------------
# C03 / C12 / C01: the per-entry loop of ranger::Store::process_message (generic, async)
# ------------------------------------------------------------------------------------------------

def _coroutine_edges(body):
    """block graph of an async body: normal successors, and suspension points continue at their resume block"""
    resume, suspend = {}, {}
    for k, tgt in re.findall(r"(\d+): (bb\d+)", body.blocks["bb0"][-1]):
        resume[int(k)] = tgt
    for bn, b in body.blocks.items():
        for st in b:
            m = re.match(r"^discriminant\(\(\*_\d+\)\) = (\d+);$", st)
            if m and b[-1].startswith("return") and int(m.group(1)) >= 3:
                suspend[bn] = int(m.group(1))
    edges = []
    for bn in body.blocks:
        if bn in suspend:
            if resume.get(suspend[bn]):
                edges.append((bn, resume[suspend[bn]]))
            continue
        for s2 in body.successors(bn):
            if s2 in body.blocks:
                edges.append((bn, s2))
    return edges


def _reach_edges(edges, start_nodes, targets, blocked_nodes):
    """is a target reachable from a start node without entering a blocked node?  (propositional; z3+cvc5)"""
    nodes = sorted({a for a, _ in edges} | {b for _, b in edges} | set(start_nodes) | set(targets))
    L = ["(set-logic QF_UF)"] + ["(declare-const r_%s Bool)" % n for n in nodes]
    for s in start_nodes:
        L.append("(assert r_%s)" % s)
    for a, b in edges:
        if b in blocked_nodes:
            continue
        L.append("(assert (=> r_%s r_%s))" % (a, b))
    for t in targets:
        L.append("(assert (not r_%s))" % t)
    L.append("(check-sat)")
    verdict, _ = solve("\n".join(L), timeout=60)
    return {"unsat": True, "sat": False}.get(verdict)


def q_pm_item_loop(bodies):
    """C03/C12/C01: the loop of the REAL generic `ranger::Store::process_message` that applies the entries
    of an item part (`for (entry, content_status) in values`), async coroutine MIR.
    A. One iteration executed symbolically from the `values.next()` call to the next one (all paths, incl.
       the suspension inside the on_insert future), decided per path with z3+cvc5:
       * `put` is called only for the entry just taken, only after the validate callback was called on
         that entry (with its content status) and answered true; an accepted entry is always put;
       * `on_insert` is called only after `put` answered Ok(Inserted), with that entry and its status;
         an inserted entry is always announced; each callback / put at most once per entry.
    B. Over the coroutine's block graph (suspension points continue at their resume blocks): after the
       on_insert call no second validate / put / on_insert call is reachable without taking the next
       entry (so resuming a pending announcement does not repeat anything)."""
    name = "pm_item_loop"
    hits = find_body(bodies, r"^ranger::Store::process_message::\{closure#0\}$")
    src = open(REPO + "/src/ranger.rs").read()
    me = re.search(r"enum InsertOutcome \{(.*?)\n\}", src, re.S)
    variants = re.findall(r"^\s{4}(\w+)", me.group(1), re.M) if me else []
    if len(hits) != 1 or "Inserted" not in variants:
        return dict(name=name, property="C12", verdict="inconclusive", detail="process_message coroutine / InsertOutcome not found uniquely", functions=[])
    body = hits[0]
    INSERTED = variants.index("Inserted")

    def blocks_calling(pat):
        return [bn for bn, b in body.blocks.items() if b and re.search(pat, b[-1]) and "(cleanup)" not in bn]
    NEXT = blocks_calling(r"= <std::vec::IntoIter<\(E, sync::ContentStatus\)> as Iterator>::next\(")
    VAL = blocks_calling(r"= <F as Fn<\(&Self, &E, sync::ContentStatus\)>>::call\(")
    PUT = blocks_calling(r"= <Self as ranger::Store<E>>::put\(")
    INS = blocks_calling(r"= <F2 as AsyncFnMut<\(&Self, E, sync::ContentStatus\)>>::async_call_mut\(")
    if len(NEXT) > 1 and len(VAL) == 1:
        # several loops over (entry, status) vectors: the one that validates is the one whose head reaches the
        # validate call without passing another loop head
        edges0 = _coroutine_edges(body)
        NEXT = [n for n in NEXT if _reach_edges(edges0, [b for a, b in edges0 if a == n], [VAL[0]], set(NEXT))]
    if not (len(NEXT) == 1 and len(VAL) == 1 and len(PUT) == 1 and len(INS) == 1):
        return dict(name=name, property="C12", verdict="inconclusive", detail="call sites not unique: next=%s validate=%s put=%s on_insert=%s" % (NEXT, VAL, PUT, INS), functions=[body.name])
    # the coroutine state pointer and the loop exit
    mstate = re.search(r"\(\(\(\*(_\d+)\) as variant#", " ".join(body.blocks[NEXT[0]]))
    nxt_succ = Exec._split_call(body.blocks[NEXT[0]][-1])[3]
    sw = body.blocks[nxt_succ][-1]
    mexit = re.search(r"switchInt\(.*\) -> \[0: (bb\d+), 1: (bb\d+)", sw)
    if not mstate or not mexit:
        return dict(name=name, property="C12", verdict="inconclusive", detail="loop shape not recognised", functions=[body.name])
    EXIT = mexit.group(1)
    smt = Smt()
    for c in ("SELFPIN", "CX", "CORO", "NEXTRES", "VALRES", "PUTRES"):
        smt.decls.append("(declare-const %s V)" % c)
    for f, n in (("discr", 1), ("fld_0", 1), ("fld_1", 1), ("as_Some", 1), ("as_Continue", 1), ("clone_of", 1), ("branch_of", 1)):
        smt.fun(f, n)
    models = {
        r"^<std::vec::IntoIter<\(E, sync::ContentStatus\)> as Iterator>::next$": lambda ex, v: "NEXTRES",
        r"^<F as Fn<\(&Self, &E, sync::ContentStatus\)>>::call$": lambda ex, v: "VALRES",
        r"^<Self as ranger::Store<E>>::put$": lambda ex, v: "PUTRES",
        r"^<E as Clone>::clone$": lambda ex, v: "(clone_of %s)" % mk_deref(v[0]),
        r"^<Result<InsertOutcome, .*> as Try>::branch$": lambda ex, v: "(branch_of %s)" % v[0],
    }
    ex = Exec(bodies, smt, models=models, max_paths=2000)
    ex.stop_blocks = {NEXT[0], EXIT}
    res = []
    env0 = {"_1": "SELFPIN", "_2": "CX", mstate.group(1): "(ref CORO)"}
    try:
        ex._walk(body, NEXT[0], env0, [], [], res, 0)
    except (ValueError, AssertionError, KeyError, IndexError, RecursionError) as e:
        return dict(name=name, property="C12", verdict="inconclusive", detail="segment execution: %s" % str(e)[:200], functions=[body.name])
    ENTRY = "(fld_0 (fld_0 (as_Some NEXTRES)))"
    STATUS = "(fld_1 (fld_0 (as_Some NEXTRES)))"
    accepted = "(v2b VALRES)"
    ex._konst("int_0")
    inserted = "(and (= (discr (branch_of PUTRES)) k_int_0) (= (discr (fld_0 (as_Continue (branch_of PUTRES)))) %s))" % ex._konst("int_%d" % INSERTED)
    problems, nq = [], 0

    def ask(msg, goal):
        nonlocal nq
        nq += 1
        v, _ = solve(smt.script(goal))
        if v != "unsat":
            problems.append((msg, v))

    def tuple_args(t):
        from mirsmt import split_sexpr_args
        return split_sexpr_args(t) if t.startswith("(mk_tuple") else [t]
    n_ins = n_put = 0
    for pc, ret, calls, env in res:
        ctx = "(and true %s)" % " ".join(pc)
        val = [c for c in calls if re.search(r"^<F as Fn<", c[0])]
        put = [c for c in calls if re.search(r"^<Self as ranger::Store<E>>::put$", c[0])]
        ins = [c for c in calls if re.search(r"^<F2 as AsyncFnMut<", c[0])]
        order = [("V" if c in val else "P" if c in put else "I") for c in calls if c in val or c in put or c in ins]
        if len(val) > 1 or len(put) > 1 or len(ins) > 1 or "".join(order) not in ("", "V", "VP", "VPI"):
            problems.append(("per entry: validate, then put, then on_insert, each at most once (got %s)" % "".join(order), "sat"))
            continue
        if val:
            a = tuple_args(val[0][1][1])
            if len(a) != 3:
                problems.append(("the validate callback receives (store, entry, content status)", "sat"))
            else:
                ask("the validate callback is asked about the entry just taken from the message, with its content status",
                    "(and %s (not (and (= %s %s) (= %s %s))))" % (ctx, mk_deref(a[1]), ENTRY, a[2], STATUS))
        if put:
            n_put += 1
            ask("an entry is stored only after the validate callback accepted it", "(and %s (not %s))" % (ctx, accepted))
            ask("the entry that is stored is the entry that was validated", "(and %s (not (= %s (clone_of %s))))" % (ctx, put[0][1][1], ENTRY))
        elif val and not ret.startswith("STOP") is False:
            pass
        if val and not put:
            ask("an entry accepted by the validate callback is stored", "(and %s %s)" % (ctx, accepted))
        if ins:
            n_ins += 1
            ask("on_insert fires only for an entry that put reported as inserted", "(and %s (not %s))" % (ctx, inserted))
            a = tuple_args(ins[0][1][1])
            if len(a) != 3:
                problems.append(("on_insert receives (store, entry, content status)", "sat"))
            else:
                ask("on_insert announces the entry that was stored, with the content status delivered with it",
                    "(and %s (not (and (= %s %s) (= %s %s))))" % (ctx, a[1], ENTRY, a[2], STATUS))
        if put and not ins:
            ask("every entry that put reports as inserted is announced through on_insert", "(and %s %s)" % (ctx, inserted))
    if n_ins == 0 or n_put == 0:
        problems.append(("the loop stores and announces entries on some path", "inconclusive"))
    # B: nothing is repeated when a pending announcement is resumed
    edges = _coroutine_edges(body)
    after_ins = [b for a, b in edges if a == INS[0]]
    nq += 1
    r = _reach_edges(edges, after_ins, [VAL[0], PUT[0], INS[0]], {NEXT[0]})
    if r is None:
        problems.append(("graph query", "inconclusive"))
    elif r:
        problems.append(("after on_insert was called for an entry, nothing is validated, stored or announced again before the next entry is taken", "sat"))
    verdict = "holds"
    if any(p[1] == "inconclusive" for p in problems):
        verdict = "inconclusive"
    if any(p[1] != "inconclusive" for p in problems):
        verdict = "violated"
    return dict(name=name, property="C12", verdict=verdict, detail="iteration paths=%d (with put %d, with on_insert %d), graph edges=%d; problems: %s" % (len(res), n_put, n_ins, len(edges), problems or "none"),
                functions=[body.name + " (generic over the store, the entry type and the three callbacks)"], queries=nq, cases=len(res) + 1, witness="c12pm",
                check_message=(problems[0][0] if problems else "process_message gates storing on validation and announcing on insertion"))


def q_pm_fingerprint_gate(bodies):
    """C01 (termination / silence between equal replicas): the loop of the REAL generic
    `process_message` over the fingerprint parts of a message.  A part must be answered (something
    pushed to the reply) only if the local fingerprint of the part's range differs from the received one.
    A. Segment execution from `fingerprints.next()` up to the first `get_range_len` call (the start of
       the answering code): on every such path `get_fingerprint` was asked for the part's range, its
       result was compared with the part's fingerprint and the comparison said 'different' (z3+cvc5).
    B. Block graph: no push to the reply is reachable from the loop head without passing `get_range_len`."""
    name = "pm_fingerprint_gate"
    hits = find_body(bodies, r"^ranger::Store::process_message::\{closure#0\}$")
    if len(hits) != 1:
        return dict(name=name, property="C01", verdict="inconclusive", detail="process_message coroutine not found uniquely", functions=[])
    body = hits[0]

    def blocks_calling(pat):
        return [bn for bn, b in body.blocks.items() if b and re.search(pat, b[-1])]
    NEXT = blocks_calling(r"= <std::vec::IntoIter<RangeFingerprint<.*>> as Iterator>::next\(")
    GRL = blocks_calling(r"= <Self as ranger::Store<E>>::get_range_len\(")
    PUSH = blocks_calling(r"= Vec::<MessagePart<E>>::push\(")
    if len(NEXT) != 1 or not GRL or not PUSH:
        return dict(name=name, property="C01", verdict="inconclusive", detail="call sites: next=%s get_range_len=%s push=%s" % (NEXT, GRL, PUSH), functions=[body.name])
    mstate = re.search(r"\(\(\(\*(_\d+)\) as variant#", " ".join(body.blocks[NEXT[0]]))
    nxt_succ = Exec._split_call(body.blocks[NEXT[0]][-1])[3]
    mexit = re.search(r"switchInt\(.*\) -> \[0: (bb\d+), 1: (bb\d+)", body.blocks[nxt_succ][-1])
    if not mstate or not mexit:
        return dict(name=name, property="C01", verdict="inconclusive", detail="loop shape not recognised", functions=[body.name])
    smt = Smt()
    for c in ("SELFPIN", "CX", "CORO", "NEXTRES", "GFPRES", "EQRES"):
        smt.decls.append("(declare-const %s V)" % c)
    for f, n in (("discr", 1), ("fld_0", 1), ("fld_1", 1), ("as_Some", 1), ("as_Continue", 1), ("branch_of", 1)):
        smt.fun(f, n)
    models = {
        r"^<std::vec::IntoIter<RangeFingerprint<.*>> as Iterator>::next$": lambda ex, v: "NEXTRES",
        r"^<Self as ranger::Store<E>>::get_fingerprint$": lambda ex, v: "GFPRES",
        r"^<Result<Fingerprint, .*> as Try>::branch$": lambda ex, v: "(branch_of %s)" % v[0],
        r"^<Fingerprint as PartialEq>::eq$": lambda ex, v: "EQRES",
    }
    ex = Exec(bodies, smt, models=models, max_paths=2000)
    ex.stop_blocks = set(GRL) | {NEXT[0], mexit.group(1)}
    res = []
    try:
        ex._walk(body, NEXT[0], {"_1": "SELFPIN", "_2": "CX", mstate.group(1): "(ref CORO)"}, [], [], res, 0)
    except (ValueError, AssertionError, KeyError, IndexError, RecursionError) as e:
        return dict(name=name, property="C01", verdict="inconclusive", detail="segment execution: %s" % str(e)[:200], functions=[body.name])
    PART = "(fld_0 (as_Some NEXTRES))"
    problems, nq, n_answer = [], 0, 0
    for pc, ret, calls, env in res:
        ctx = "(and true %s)" % " ".join(pc)
        if any(re.search(r"^Vec::<MessagePart<E>>::push$", c[0]) for c in calls):
            problems.append(("nothing is added to the reply before the local fingerprint was compared", "sat"))
            continue
        if not ret.startswith("STOP:") or ret[5:] not in GRL:
            continue
        n_answer += 1
        gfp = [c for c in calls if re.search(r"get_fingerprint$", c[0])]
        eqs = [c for c in calls if re.search(r"^<Fingerprint as PartialEq>::eq$", c[0])]
        if len(gfp) != 1 or len(eqs) != 1:
            problems.append(("a fingerprint part is answered only after comparing the local fingerprint of its range with the received one", "sat"))
            continue
        nq += 2
        v, _ = solve(smt.script("(and %s (not (and (= %s (fld_0 %s)) (or (and (= %s (fld_0 (as_Continue (branch_of GFPRES)))) (= %s (fld_1 %s))) (and (= %s (fld_0 (as_Continue (branch_of GFPRES)))) (= %s (fld_1 %s)))))))" % (
            ctx, mk_deref(gfp[0][1][1]), PART, mk_deref(eqs[0][1][0]), mk_deref(eqs[0][1][1]), PART, mk_deref(eqs[0][1][1]), mk_deref(eqs[0][1][0]), PART)))
        if v != "unsat":
            problems.append(("the comparison is between get_fingerprint(part.range) and part.fingerprint", v))
        v, _ = solve(smt.script("(and %s (v2b EQRES))" % ctx))
        if v != "unsat":
            problems.append(("a fingerprint part whose fingerprint equals the local one is not answered", v))
    if n_answer == 0:
        problems.append(("the answering code is reached on some path", "inconclusive"))
    edges = _coroutine_edges(body)
    nq += 1
    r = _reach_edges(edges, [b for a, b in edges if a == NEXT[0]], PUSH, set(GRL) | {NEXT[0]})
    # pushes that belong to the item loop are not reachable from the fingerprint loop head at all
    if r is None:
        problems.append(("graph query", "inconclusive"))
    elif r:
        problems.append(("every answer to a fingerprint part is produced after the local/received comparison (get_range_len is its first step)", "sat"))
    verdict = "holds"
    if any(p[1] == "inconclusive" for p in problems):
        verdict = "inconclusive"
    if any(p[1] != "inconclusive" for p in problems):
        verdict = "violated"
    return dict(name=name, property="C01", verdict=verdict, detail="segment paths=%d (answering %d); problems: %s" % (len(res), n_answer, problems or "none"),
                functions=[body.name + " (generic)"], queries=nq, cases=len(res) + 1, witness="c01silence",
                check_message=(problems[0][0] if problems else "equal fingerprints are not answered"))


QUERIES["C12"] = QUERIES["C12"] + [q_pm_item_loop]
QUERIES["C01"] = [q_pm_fingerprint_gate, q_pm_item_loop]
QUERIES["C03"] = QUERIES["C03"] + [q_pm_item_loop]


# ------------------------------------------------------------------------------------------------
# C13: AuthorHeads::encode keeps every author (no limit) / the newest that fit (limit)
# ------------------------------------------------------------------------------------------------

def _weak_orders(k):
    """all weak orderings of k items as rank tuples (ranks 0..m-1, every rank used)"""
    out = set()

    def rec(i, cur):
        if i == k:
            used = sorted(set(cur))
            if used == list(range(len(used))):
                out.add(tuple(cur))
            return
        for r in range(k):
            rec(i + 1, cur + [r])
    rec(0, [])
    return sorted(out)


def q_c13_heads_encode(bodies):
    """C13: the REAL `AuthorHeads::encode` (both loops unrolled).  The head set is K authors (iterated in
    author order, as the BTreeMap does) whose timestamps follow a given weak order — every weak order
    of K <= 3 timestamps is one instance, ties included; the temporary map is a model of
    `BTreeMap<u64, AuthorId>` (insert replaces on an equal key, iteration in key order).
    * no size limit: every (timestamp, author) pair is handed to the serializer;
    * with a limit L (symbolic; `serialized_size` of the first n items = SZ_n, symbolic, increasing):
      the pairs handed over are the newest ones, as many as fit, and their size is <= L."""
    from mirsmt import split_sexpr_args
    name = "c13_heads_encode"
    hits = find_body(bodies, r"^heads::<impl at src/heads.rs:\d+:\d+: \d+:\d+>::encode$")
    if len(hits) != 1:
        return dict(name=name, property="C13", verdict="inconclusive", detail="AuthorHeads::encode not found uniquely (%d)" % len(hits), functions=[])
    body = hits[0]
    problems, nq, ncases = [], 0, 0
    KMAX = 4 if THOROUGH else 3
    for K in range(0, KMAX + 1):
        for ranks in _weak_orders(K):
            for limited in (False, True):
                smt = Smt()
                for f, n in (("C_Ok", 1), ("C_Some", 1), ("C_None", 0), ("C_Continue", 1), ("C_tuple2", 2), ("discr", 1), ("encoded", 1)):
                    smt.fun(f, n)
                for i in range(K):
                    smt.decls.append("(declare-const au_%d V)" % i)
                for r in sorted(set(ranks)):
                    smt.decls.append("(declare-const TS_%d V)" % r)
                for c in ["SELF", "LIMIT", "ITEMS"] + ["SZ_%d" % n for n in range(K + 1)]:
                    smt.decls.append("(declare-const %s V)" % c)
                smt.decls.append("(declare-fun gt (V V) Bool)")

                def m_iter(ex, v, env):
                    env["__it"] = (0, K)
                    return "HEADSITER"
                m_iter.wants_env = True
                smt.decls.append("(declare-const HEADSITER V)")

                def m_next(ex, v, env):
                    lo, hi = env["__it"]
                    if lo >= hi:
                        return "C_None"
                    env["__it"] = (lo + 1, hi)
                    return "(C_Some (C_tuple2 (ref au_%d) (ref TS_%d)))" % (lo, ranks[lo])
                m_next.wants_env = True

                def m_bt_new(ex, v, env):
                    env["__bt"] = ()
                    return "BTMAP"
                m_bt_new.wants_env = True
                smt.decls.append("(declare-const BTMAP V)")

                def m_bt_insert(ex, v, env):
                    bt = dict(env.get("__bt", ()))
                    bt[v[1]] = v[2]
                    env["__bt"] = tuple(bt.items())
                    return smt.const("bt_insert_res")
                m_bt_insert.wants_env = True

                def m_bt_into_iter(ex, v, env):
                    # iteration in key order = rank order of the timestamps
                    items = sorted(env.get("__bt", ()), key=lambda kv: int(re.match(r"^TS_(\d+)$", kv[0]).group(1)))
                    env["__btit"] = tuple(items)
                    return "BTITER"
                m_bt_into_iter.wants_env = True
                smt.decls.append("(declare-const BTITER V)")

                def m_bt_next_back(ex, v, env):
                    items = env.get("__btit", ())
                    if not items:
                        return "C_None"
                    env["__btit"] = items[:-1]
                    return "(C_Some (C_tuple2 %s %s))" % items[-1]
                m_bt_next_back.wants_env = True

                def m_bt_next(ex, v, env):
                    items = env.get("__btit", ())
                    if not items:
                        return "C_None"
                    env["__btit"] = items[1:]
                    return "(C_Some (C_tuple2 %s %s))" % items[0]
                m_bt_next.wants_env = True

                def au_index(t):
                    m = re.search(r"au_(\d+)", t)
                    return int(m.group(1)) if m else -1

                def m_bs_insert(ex, v, env):
                    st = set(env.get("__bt", ()))
                    parts = split_sexpr_args(v[1])
                    st.add((parts[0], parts[1]))
                    env["__bt"] = tuple(st)
                    return "(b2v true)"
                m_bs_insert.wants_env = True

                def m_bs_into_iter(ex, v, env):
                    items = sorted(env.get("__bt", ()), key=lambda kv: (int(re.match(r"^TS_(\d+)$", kv[0]).group(1)), au_index(kv[1])))
                    env["__btit"] = tuple(items)
                    return "BTITER"
                m_bs_into_iter.wants_env = True

                def m_len_u8(ex, v, env):
                    return "SZ_%d" % len(env.get("__final", env.get("__pushed", ())))
                m_len_u8.wants_env = True

                def m_opt_map_closure(ex, v, env):
                    if v[0] == "C_None":
                        return "C_None"
                    cb = find_body(ex.bodies, r"^heads::<impl at src/heads.rs:\d+:\d+: \d+:\d+>::encode::\{closure#0\}$")
                    if len(cb) != 1:
                        raise ValueError("closure of encode not found")
                    sub = Exec(ex.bodies, smt, models=ex.models, max_paths=16, ctor=True)
                    sub_env_paths = sub.run(cb[0], [v[1], split_sexpr_args(v[0])[0]], heap0=env.get("__heap"))
                    if len(sub_env_paths) != 1:
                        raise ValueError("closure of encode: unexpected shape")
                    # the closure reads `encoded.len()`: Vec::<u8>::len is modelled with the size of the final items
                    return "(C_Some %s)" % sub_env_paths[0][1]
                m_opt_map_closure.wants_env = True

                def m_unwrap_or(ex, v):
                    if v[0] == "C_None":
                        return v[1]
                    if v[0].startswith("(C_Some "):
                        return split_sexpr_args(v[0])[0]
                    raise ValueError("unwrap_or on a non-constructor value")

                def m_push(ex, v, env):
                    env["__pushed"] = env.get("__pushed", ()) + (v[1],)
                    return ex._konst("unit")
                m_push.wants_env = True

                def m_pop(ex, v, env):
                    env["__pushed"] = env.get("__pushed", ())[:-1]
                    return smt.const("popped")
                m_pop.wants_env = True

                def m_size(ex, v, env):
                    return "(C_Ok SZ_%d)" % len(env.get("__pushed", ()))
                m_size.wants_env = True

                def m_to_vec(ex, v, env):
                    env["__final"] = env.get("__pushed", ())
                    return "(C_Ok (encoded ITEMS))"
                m_to_vec.wants_env = True

                def m_branch(ex, v):
                    if v[0].startswith("(C_Ok "):
                        return "(C_Continue %s)" % split_sexpr_args(v[0])[0]
                    return "(%s %s)" % (smt.fun("call_branch", 1), v[0])
                models = {
                    r"^heads::AuthorHeads::iter$": m_iter,
                    r"^<std::collections::btree_map::Iter<'_, keys::AuthorId, u64> as Iterator>::next$": m_next,
                    r"^BTreeMap::<u64, keys::AuthorId>::new$": m_bt_new,
                    r"^BTreeMap::<u64, keys::AuthorId>::insert$": m_bt_insert,
                    r"^<BTreeMap<u64, keys::AuthorId> as IntoIterator>::into_iter$": m_bt_into_iter,
                    r"^<std::collections::btree_map::IntoIter<u64, keys::AuthorId> as Iterator>::rev$": lambda ex, v: "BTITER_REV",
                    r"^<Rev<std::collections::btree_map::IntoIter<u64, keys::AuthorId>> as Iterator>::next$": m_bt_next_back,
                    r"^<std::collections::btree_map::IntoIter<u64, keys::AuthorId> as Iterator>::next$": m_bt_next,
                    r"^BTreeSet::<\(u64, keys::AuthorId\)>::new$": m_bt_new,
                    r"^BTreeSet::<\(u64, keys::AuthorId\)>::insert$": m_bs_insert,
                    r"^<BTreeSet<\(u64, keys::AuthorId\)> as IntoIterator>::into_iter$": m_bs_into_iter,
                    r"^<std::collections::btree_set::IntoIter<\(u64, keys::AuthorId\)> as Iterator>::rev$": lambda ex, v: "BTITER_REV",
                    r"^<Rev<std::collections::btree_set::IntoIter<\(u64, keys::AuthorId\)>> as Iterator>::next$": m_bt_next_back,
                    r"^<std::collections::btree_set::IntoIter<\(u64, keys::AuthorId\)> as Iterator>::next$": m_bt_next,
                    r"^Vec::<u8>::len$": m_len_u8,
                    r"^std::option::Option::<usize>::map::<bool, \{closure": m_opt_map_closure,
                    r"^std::option::Option::<bool>::unwrap_or$": m_unwrap_or,
                    r"anyhow::__private::not": lambda ex, v: "(b2v (not %s))" % mk_v2b(v[0]),
                    r" as IntoIterator>::into_iter$": lambda ex, v: v[0],
                    r"^Vec::<\(u64, keys::AuthorId\)>::push$": m_push,
                    r"^Vec::<\(u64, keys::AuthorId\)>::pop$": m_pop,
                    r"serialized_size::<Vec<\(u64, keys::AuthorId\)>>$": m_size,
                    r"to_stdvec::<Vec<\(u64, keys::AuthorId\)>>$": m_to_vec,
                    r" as Try>::branch$": m_branch,
                }
                smt.decls.append("(declare-const BTITER_REV V)")
                ex = Exec(bodies, smt, models=models, max_paths=2000, ctor=True, unroll=True)
                try:
                    paths = ex.run(body, ["SELF", "(C_Some LIMIT)" if limited else "C_None"])
                except (ValueError, AssertionError, KeyError, IndexError, AttributeError) as e:
                    return dict(name=name, property="C13", verdict="inconclusive", detail="K=%d ranks=%s: %r" % (K, ranks, e), functions=[body.name])
                tag = "K=%d timestamp ranks=%s %s" % (K, list(ranks), "limit" if limited else "no limit")
                # every head, newest first (ties in either order)
                allpairs = ["(C_tuple2 TS_%d au_%d)" % (ranks[i], i) for i in range(K)]
                for pc, ret, calls, env in paths:
                    ncases += 1
                    if not ret.startswith("(C_Ok "):
                        continue
                    final = list(env.get("__final", ()))
                    # Gt(size, limit) comparisons: one strict order `gt`, sizes increasing
                    extra = []
                    pcs = " ".join(pc)
                    for op, a, b2 in _find_ops(pcs):
                        t = "(op_%s %s %s)" % (op, a, b2)
                        d = {"Gt": "(gt %s %s)" % (a, b2), "Ge": "(not (gt %s %s))" % (b2, a), "Lt": "(gt %s %s)" % (b2, a), "Le": "(not (gt %s %s))" % (a, b2)}[op]
                        extra.append("(= (v2b %s) %s)" % (t, d))
                    for n in range(K):
                        extra.append("(=> (gt SZ_%d LIMIT) (gt SZ_%d LIMIT))" % (n, n + 1))
                    ctx = "(and true %s %s)" % (pcs, " ".join(extra))
                    if len(set(final)) != len(final) or any(x not in allpairs for x in final):
                        problems.append(("only the set's own (timestamp, author) pairs are encoded, each once", "sat", tag))
                        continue
                    # newest first: the ranks of the encoded pairs never increase, and no skipped pair is newer than an encoded one
                    rk = [ranks[allpairs.index(x)] for x in final]
                    skipped = [ranks[i] for i in range(K) if allpairs[i] not in final]
                    if any(rk[i] < rk[i + 1] for i in range(len(rk) - 1)) or (rk and skipped and max(skipped) > min(rk)):
                        problems.append(("the encoded heads are the newest ones, newest first", "sat", tag))
                        continue
                    if not limited:
                        if len(final) != K:
                            problems.append(("without a size limit every author's head is encoded", "sat", tag + " encoded %d of %d" % (len(final), K)))
                        continue
                    nq += 2
                    v, _ = solve(smt.script("(and %s (gt SZ_%d LIMIT))" % (ctx, len(final))))
                    if v != "unsat":
                        problems.append(("the encoding never exceeds the size limit", v, tag + " encoded %d" % len(final)))
                    if len(final) < K:
                        v, _ = solve(smt.script("(and %s (not (gt SZ_%d LIMIT)))" % (ctx, len(final) + 1)))
                        if v != "unsat":
                            problems.append(("under a limit as many of the newest heads as fit are kept", v, tag + " encoded %d of %d" % (len(final), K)))
    verdict = "holds"
    if any(p[1] == "inconclusive" for p in problems):
        verdict = "inconclusive"
    if any(p[1] != "inconclusive" for p in problems):
        verdict = "violated"
    return dict(name=name, property="C13", verdict=verdict, detail="K=0..%d, all weak orders of the timestamps; cases=%d; problems: %s" % (KMAX, ncases, problems[:6] or "none"),
                functions=[body.name, "std BTreeMap<u64, AuthorId> (modelled), postcard serialized_size / to_stdvec (symbolic sizes)"], queries=nq, cases=ncases, witness="c13enc",
                check_message=(problems[0][0] if problems else "encode keeps every author / the newest that fit"))


def q_c13_heads_news(bodies):
    """C13: the REAL `AuthorHeads::has_news_for` and its closure (loop unrolled over K = 0..3 of our heads;
    for each author the peer's set either lacks the author or holds some timestamp — every
    present/absent pattern is one instance, the timestamp comparison is symbolic).  Decided per path:
    the reported number of updates equals the number of our authors that the peer lacks or for which
    our timestamp is strictly greater (`ours > theirs`, as the closure's MIR computes it), and the
    answer is `None` exactly when that number is zero."""
    from mirsmt import split_sexpr_args
    name = "c13_heads_news"
    hits = find_body(bodies, r"^heads::<impl at src/heads.rs:\d+:\d+: \d+:\d+>::has_news_for$")
    if len(hits) != 1:
        return dict(name=name, property="C13", verdict="inconclusive", detail="has_news_for not found uniquely (%d)" % len(hits), functions=[])
    body = hits[0]
    problems, nq, ncases = [], 0, 0
    KMAX = 4 if THOROUGH else 3
    for K in range(0, KMAX + 1):
        for mask in range(1 << K):
            present = [(mask >> i) & 1 == 1 for i in range(K)]
            smt = Smt()
            for f, n in (("C_Some", 1), ("C_None", 0), ("C_tuple2", 2), ("discr", 1), ("C_closure1", 1)):
                smt.fun(f, n)
            for i in range(K):
                for c in ("au_%d", "ours_%d", "theirs_%d"):
                    smt.decls.append("(declare-const %s V)" % (c % i))
            for c in ("SELF", "OTHER", "HEADSITER"):
                smt.decls.append("(declare-const %s V)" % c)

            def m_iter(ex, v, env):
                if v[0] != "SELF":
                    raise ValueError("iterates over the wrong set")
                env["__it"] = (0, K)
                return "HEADSITER"
            m_iter.wants_env = True

            def m_next(ex, v, env):
                lo, hi = env["__it"]
                if lo >= hi:
                    return "C_None"
                env["__it"] = (lo + 1, hi)
                return "(C_Some (C_tuple2 (ref au_%d) (ref ours_%d)))" % (lo, lo)
            m_next.wants_env = True

            def m_get(ex, v):
                if v[0] != "OTHER":
                    raise ValueError("looks the author up in the wrong set")
                mi = re.match(r"^\(ref au_(\d+)\)$", v[1])
                if not mi:
                    raise ValueError("lookup key is not one of our authors")
                i = int(mi.group(1))
                return "(C_Some theirs_%d)" % i if present[i] else "C_None"

            def m_opt_map(ex, v):
                if v[0] == "C_None":
                    return "C_None"
                cb = find_body(ex.bodies, r"^heads::<impl at src/heads.rs:\d+:\d+: \d+:\d+>::has_news_for::\{closure#0\}$")
                if len(cb) != 1:
                    raise ValueError("closure of has_news_for not found")
                sub = Exec(ex.bodies, smt, models=ex.models, max_paths=16, ctor=True)
                pp = sub.run(cb[0], [v[1], split_sexpr_args(v[0])[0]])
                if len(pp) != 1:
                    raise ValueError("closure of has_news_for: unexpected shape")
                return "(C_Some %s)" % pp[0][1]

            def m_unwrap_or(ex, v):
                if v[0] == "C_None":
                    return v[1]
                return split_sexpr_args(v[0])[0]
            models = {
                r"^heads::AuthorHeads::iter$": m_iter,
                r"^<std::collections::btree_map::Iter<'_, keys::AuthorId, u64> as Iterator>::next$": m_next,
                r" as IntoIterator>::into_iter$": lambda ex, v: v[0],
                r"^heads::AuthorHeads::get$": m_get,
                r"^std::option::Option::<u64>::map::<bool, \{closure": m_opt_map,
                r"^std::option::Option::<bool>::unwrap_or$": m_unwrap_or,
                r"^NonZero::<u64>::new$": lambda ex, v: "(nonzero_new %s)" % v[0],
            }
            smt.fun("nonzero_new", 1)
            ex = Exec(bodies, smt, models=models, max_paths=4000, ctor=True, unroll=True)
            try:
                paths = ex.run(body, ["SELF", "OTHER"])
            except (ValueError, AssertionError, KeyError, IndexError, AttributeError) as e:
                return dict(name=name, property="C13", verdict="inconclusive", detail="K=%d present=%s: %r" % (K, present, e), functions=[body.name])
            tag = "K=%d peer knows %s" % (K, present)
            for pc, ret, calls, env in paths:
                ncases += 1
                mret = re.match(r"^\(nonzero_new k_(\d+)_u64\)$", ret)
                if not mret:
                    problems.append(("the answer is NonZeroU64::new(number of updates)", "sat", tag + " ret=" + ret[:60]))
                    continue
                count = int(mret.group(1))
                # which authors does this path count?  the strict comparison `ours > theirs` per present author
                ctx = " ".join(pc) if pc else "true"
                want_terms = []
                for i in range(K):
                    if not present[i]:
                        want_terms.append("1")
                    else:
                        want_terms.append("(ite (v2b (op_Gt ours_%d theirs_%d)) 1 0)" % (i, i))
                smt.fun("op_Gt", 2)
                nq += 1
                v, _ = solve(smt.script("(and %s (not (= %d (+ 0 0 %s))))" % (ctx, count, " ".join(want_terms))))
                if v != "unsat":
                    problems.append(("an author counts as news exactly if the peer lacks it or our timestamp is strictly newer", v, tag + " counted %d" % count))
    verdict = "holds"
    if any(p[1] == "inconclusive" for p in problems):
        verdict = "inconclusive"
    if any(p[1] != "inconclusive" for p in problems):
        verdict = "violated"
    return dict(name=name, property="C13", verdict=verdict, detail="K=0..%d, every present/absent pattern; paths=%d; problems: %s" % (KMAX, ncases, problems[:4] or "none"),
                functions=[body.name, body.name + "::{closure#0}", "AuthorHeads::{iter,get} (modelled), NonZeroU64::new (None iff 0: std)"], queries=nq, cases=ncases, witness="c13news",
                check_message=(problems[0][0] if problems else "news detection counts exactly the strictly newer or unknown authors"))


QUERIES["C13"] = QUERIES["C13"] + [q_c13_heads_encode, q_c13_heads_news]


# ------------------------------------------------------------------------------------------------
# C05: QueryIterator::next driven over a modelled range (Exec2: inlining, addresses, model forks)
# ------------------------------------------------------------------------------------------------
from queries_c05 import QUERIES_C05  # noqa: E402
QUERIES["C05"] = QUERIES.get("C05", []) + QUERIES_C05


# ------------------------------------------------------------------------------------------------
# Replica::insert_entry (direct ingress path): C02, C03, C07, C12
# ------------------------------------------------------------------------------------------------
from queries_ins import QUERIES_INS  # noqa: E402
for _p in ("C02", "C03", "C07", "C12"):
    QUERIES[_p] = QUERIES.get(_p, []) + QUERIES_INS


# ------------------------------------------------------------------------------------------------
# C08: redb-backed range primitives against the ordered-map definitions
# ------------------------------------------------------------------------------------------------
from queries_c08 import QUERIES_C08  # noqa: E402
QUERIES["C08"] = QUERIES.get("C08", []) + QUERIES_C08


# ------------------------------------------------------------------------------------------------
# C15: persistence of download policies
# ------------------------------------------------------------------------------------------------
from queries_c15 import QUERIES_C15  # noqa: E402
QUERIES["C15"] = QUERIES.get("C15", []) + QUERIES_C15


# ------------------------------------------------------------------------------------------------
# C11: live.rs completion handlers, executed (Exec2)
# ------------------------------------------------------------------------------------------------
from queries_c11 import QUERIES_C11  # noqa: E402
QUERIES["C11"] = QUERIES.get("C11", []) + QUERIES_C11


# ------------------------------------------------------------------------------------------------
# C09: length-prefixed framing (decode / encode) over integer buffer lengths
# ------------------------------------------------------------------------------------------------
from queries_c09 import QUERIES_C09  # noqa: E402
QUERIES["C09"] = QUERIES.get("C09", []) + QUERIES_C09


# ------------------------------------------------------------------------------------------------
# C09 / C10: decoded record identifiers are long enough for their accessors (no panic on hostile ids)
# ------------------------------------------------------------------------------------------------
from queries_recid import QUERIES_RECID  # noqa: E402
for _p in ("C09", "C10"):
    QUERIES[_p] = QUERIES.get(_p, []) + QUERIES_RECID


# ------------------------------------------------------------------------------------------------
# C10: the session state machines (acceptor / initiator) executed on every frame script
# ------------------------------------------------------------------------------------------------
from queries_c10 import QUERIES_C10  # noqa: E402
QUERIES["C10"] = QUERIES.get("C10", []) + QUERIES_C10


# ------------------------------------------------------------------------------------------------
# C01: the replies of the generic process_message (anchor, split, item diff), executed from bb0 to the final return
# ------------------------------------------------------------------------------------------------
from queries_pm import QUERIES_PM  # noqa: E402
QUERIES["C01"] = QUERIES.get("C01", []) + QUERIES_PM + QUERIES_C08   # C01's anchors name the redb-backed range scan and fingerprint


# ------------------------------------------------------------------------------------------------
# C16: content hashes for garbage-collection protection; the open-document guard
# ------------------------------------------------------------------------------------------------
from queries_c16 import QUERIES_C16  # noqa: E402
QUERIES["C16"] = QUERIES.get("C16", []) + QUERIES_C16


# ------------------------------------------------------------------------------------------------
# C12: Subscribers (send / send_with / subscribe / unsubscribe), executed
# ------------------------------------------------------------------------------------------------
from queries_c12 import QUERIES_C12  # noqa: E402
QUERIES["C12"] = QUERIES.get("C12", []) + QUERIES_C12


# ------------------------------------------------------------------------------------------------
# C14: the open / sync gates of every handler of the store actor; Actor::close
# ------------------------------------------------------------------------------------------------
from queries_c14 import QUERIES_C14  # noqa: E402
QUERIES["C14"] = QUERIES.get("C14", []) + QUERIES_C14


# ------------------------------------------------------------------------------------------------
# C02 / C08: remove_prefix_filtered over the records table
# ------------------------------------------------------------------------------------------------
from queries_c02 import QUERIES_C02, QUERIES_LOCAL  # noqa: E402
for _p in ("C02", "C08"):
    QUERIES[_p] = QUERIES.get(_p, []) + QUERIES_C02
for _p in ("C02", "C07"):
    QUERIES[_p] = QUERIES.get(_p, []) + QUERIES_LOCAL    # C07: no local entry or deletion without the write secret


# the rebuild of the head table (C18's queries) is also what C13 says about heads of an older database
QUERIES["C13"] = QUERIES.get("C13", []) + [q_c18_heads_rebuild]
# a failing request must not lose acknowledged writes (C14: "shutdown hands back a store containing every acknowledged write")
QUERIES["C14"] = QUERIES.get("C14", []) + [q_c06_txn_glue]


# ------------------------------------------------------------------------------------------------
# C05: which index / range / residual filters a query is turned into (IndexKind::from, QueryIterator::new)
# ------------------------------------------------------------------------------------------------
from queries_c05new import QUERIES_C05NEW  # noqa: E402
QUERIES["C05"] = QUERIES.get("C05", []) + QUERIES_C05NEW


# ------------------------------------------------------------------------------------------------
# C07: Store::import_namespace (merge with the stored capability inside one transaction)
# ------------------------------------------------------------------------------------------------
from queries_c07 import QUERIES_C07  # noqa: E402
QUERIES["C07"] = QUERIES.get("C07", []) + QUERIES_C07


# ------------------------------------------------------------------------------------------------
# C13: AuthorHeads insert / merge / decode, LatestIterator, has_news_for_us
# ------------------------------------------------------------------------------------------------
from queries_c13api import QUERIES_C13API  # noqa: E402
QUERIES["C13"] = QUERIES.get("C13", []) + QUERIES_C13API
from queries_c15text import QUERIES_C15TEXT  # noqa: E402
QUERIES["C15"] = QUERIES.get("C15", []) + QUERIES_C15TEXT
QUERIES["C09"] = QUERIES.get("C09", []) + QUERIES_C15TEXT
from queries_c18b import QUERIES_C18B  # noqa: E402
QUERIES["C18"] = QUERIES.get("C18", []) + QUERIES_C18B

# the frame decoder is what turns "whatever a remote peer sends" into messages or errors (C10: never wait forever)
QUERIES["C10"] = QUERIES.get("C10", []) + [q for q in QUERIES_C09 if q.__name__ == "q_c09_frame_decode"]
from queries_c10counts import QUERIES_C10COUNTS  # noqa: E402
QUERIES["C10"] = QUERIES.get("C10", []) + QUERIES_C10COUNTS


# ------------------------------------------------------------------------------------------------
# cross-registrations (round 5): mechanisms a property names as its own are decided by the query that executes them, whichever
# property it was written for.  C01: per-entry validation during reconciliation, prefix pruning on insert, the step counters;
# C16: the open guard depends on the actor telling the store "closed" only with the last handle; peers of a removed document
# cannot come back through a late registration.
# ------------------------------------------------------------------------------------------------
from queries_c02 import QUERIES_C02 as _QC02  # noqa: E402
from queries_c14 import QUERIES_C14 as _QC14  # noqa: E402
QUERIES["C01"] = QUERIES.get("C01", []) + [q_c03_reconcile_validation] + [q for q in _QC02 if q.__name__ == "q_c02_remove_prefix"] + QUERIES_C10COUNTS
QUERIES["C16"] = QUERIES.get("C16", []) + [q for q in _QC14 if q.__name__ == "q_c14_gating"] + [q_c17_register_step]

from queries_c03remote import QUERIES_C03REMOTE  # noqa: E402
for _p in ("C03", "C12", "C02"):
    QUERIES[_p] = QUERIES.get(_p, []) + QUERIES_C03REMOTE
# C11: a failed ACCEPTED session frees its slot only if the failure is reported for its document: the acceptor records the
# document from the moment the request was allowed (c10_bob_steps)
from queries_c10 import q_c10_bob_steps as _qbs  # noqa: E402
QUERIES["C11"] = QUERIES.get("C11", []) + [_qbs]
# C05: "the two physical access paths give the same set" also depends on pruning leaving the by-key rows of surviving entries alone
QUERIES["C05"] = QUERIES.get("C05", []) + [q for q in _QC02 if q.__name__ == "q_c02_remove_prefix"]
from queries_c05put import QUERIES_C05PUT  # noqa: E402
for _p in ("C05", "C08"):
    QUERIES[_p] = QUERIES.get(_p, []) + QUERIES_C05PUT
# C07: the capability of an open replica lives in the actor's open state, the stored one in the store: a failing request must not
# discard an acknowledged upgrade (c06_txn_glue) and a document that is still open in the actor cannot be removed and re-imported
# under it (c14_gating parts C and D)
QUERIES["C07"] = QUERIES.get("C07", []) + [q_c06_txn_glue] + [q for q in _QC14 if q.__name__ == "q_c14_gating"]
# C09 names the author-heads report among the encodings that round-trip: AuthorHeads::encode / decode are decided by C13's queries
from queries_c13api import QUERIES_C13API as _QC13API  # noqa: E402
QUERIES["C09"] = QUERIES.get("C09", []) + [q_c13_heads_encode] + _QC13API
from queries_c13news import QUERIES_C13NEWS  # noqa: E402
QUERIES["C13"] = QUERIES.get("C13", []) + QUERIES_C13NEWS
