"""E3 queries (DESIGN.md §3.5): each decides one piece of glue from the MIR of /repo's current tree.

A query returns dict(name, property, verdict in {'holds','violated','inconclusive'}, detail, functions, witness).
`witness` names a native public-API/in-crate witness program (verif-replay --witness <id>) that must
reproduce a 'violated' verdict against the real build before it is reported."""
import re

from mirsmt import Exec, Smt, solve, mk_deref, mk_v2b


def find_body(bodies, pattern, sig=None):
    hits = []
    for name, bs in bodies.items():
        if re.search(pattern, name):
            for b in bs:
                if sig is None or re.search(sig, b.args + " -> " + b.ret):
                    hits.append(b)
    return hits


def q_c03_reconcile_validation(bodies):
    """C03: the validate callback that `Replica::sync_process_message` hands to the reconciliation
    engine returns true only for entries that pass `validate_entry` (namespace, signatures, future
    bound) AND are well-formed w.r.t. emptiness (`validate_empty`) — i.e. the reconciliation
    path applies the same checks as `insert_remote_entry`."""
    name = "c03_reconcile_validation"
    hits = find_body(bodies, r"sync_process_message::\{closure#0\}::\{closure#0\}$", r"-> bool")
    if len(hits) != 1:
        return dict(name=name, property="C03", verdict="inconclusive", detail="validate closure not found uniquely (%d candidates)" % len(hits), functions=[])
    body = hits[0]
    smt = Smt()
    smt.fun("is_ok", 1, "Bool")
    smt.fun("wf", 1, "Bool")           # emptiness well-formedness of an Entry value
    smt.fun("fld_1", 1)                 # SignedEntry { signature, entry }: field 1 is the Entry
    smt.fun("validated", 5, "Bool")     # validate_entry(now, store, ns, entry, origin) is Ok
    called = []

    def result_with(ok_term):
        r = smt.const("res")
        smt.asserts.append("(= (is_ok %s) %s)" % (r, ok_term))
        return r

    def m_validate_entry(ex, vals):
        called.append(("validate_entry", vals))
        return result_with("(validated %s)" % " ".join(vals))

    def m_is_ok(ex, vals):
        return "(b2v (is_ok %s))" % mk_deref(vals[0])

    def m_signed_validate_empty(ex, vals):
        called.append(("validate_empty", vals))
        return result_with("(wf (fld_1 %s))" % mk_deref(vals[0]))

    def m_entry_validate_empty(ex, vals):
        called.append(("validate_empty", vals))
        return result_with("(wf %s)" % mk_deref(vals[0]))

    def m_entry_accessor(ex, vals):
        return "(ref (fld_1 %s))" % mk_deref(vals[0])

    models = {
        r"^validate_entry": m_validate_entry,
        r"Result::<.*>::is_ok$": m_is_ok,
        r"Result::<.*>::is_err$": lambda ex, v: "(b2v (not (is_ok %s)))" % mk_deref(v[0]),
        r"SignedEntry::validate_empty$|sync::<impl at src/sync.rs:7\d\d.*>::validate_empty$": m_signed_validate_empty,
        r"Entry::validate_empty$|sync::<impl at src/sync.rs:9\d\d.*>::validate_empty$": m_entry_validate_empty,
        r"SignedEntry::entry$|::entry$": m_entry_accessor,
    }
    ex = Exec(bodies, smt, models=models)
    args = [smt.const("closure_env"), smt.const("store"), smt.const("entry_ref"), smt.const("content_status")]
    try:
        paths = ex.run(body, args)
    except ValueError as e:
        return dict(name=name, property="C03", verdict="inconclusive", detail=str(e), functions=[body.name])
    accept = "(or false %s)" % " ".join("(and true %s %s)" % (" ".join(pc), mk_v2b(ret)) for pc, ret, _ in paths)
    entry = mk_deref(args[2])
    results = {}
    # G1: accepted => validate_entry(.., this entry, ..) returned Ok, with the captured clock/namespace
    ve_calls = [v for (n, v) in called if n == "validate_entry"]
    if not ve_calls:
        g1 = "violated"
        d1 = "the closure never calls validate_entry"
    else:
        v = ve_calls[0]
        entry_arg_ok = "(= %s %s)" % (v[3], args[2])
        goal = "(and %s (not (and (validated %s) %s)))" % (accept, " ".join(v), entry_arg_ok)
        verdict, detail = solve(smt.script(goal))
        g1 = {"unsat": "holds", "sat": "violated"}.get(verdict, "inconclusive")
        d1 = "accepted and not(validate_entry ok for this entry): %s" % verdict
    # G2: accepted => the entry is well-formed w.r.t. emptiness
    goal = "(and %s (not (wf (fld_1 %s))))" % (accept, entry)
    verdict, detail = solve(smt.script(goal))
    g2 = {"unsat": "holds", "sat": "violated"}.get(verdict, "inconclusive")
    d2 = "accepted and not(validate_empty ok): %s" % verdict
    verdicts = [g1, g2]
    overall = "violated" if "violated" in verdicts else ("inconclusive" if "inconclusive" in verdicts else "holds")
    return dict(name=name, property="C03", verdict=overall,
                detail="G1 (validate_entry gates acceptance): %s [%s]; G2 (validate_empty gates acceptance): %s [%s]; paths=%d" % (g1, d1, g2, d2, len(paths)),
                functions=[body.name, "validate_entry (uninterpreted: decided by the Kani harness validate_entry_accepts)",
                           "validate_empty (uninterpreted: decided by the Kani harness validate_empty_table)"],
                queries=2, witness="d3",
                check_message="a reconciliation message only delivers entries that pass validate_entry and validate_empty")


QUERIES = {
    "C03": [q_c03_reconcile_validation],
}


# ------------------------------------------------------------------------------------------------
# C10: the accepting side can always report its outcome
# ------------------------------------------------------------------------------------------------

def q_c10_bob_outcome(bodies):
    """C10: `BobState::run` is an async fn; its MIR is the coroutine state machine (loops, yields).
    Abstraction decided by the solver: control-flow reachability over the REAL block graph with one
    tracked fact — is `self.progress` `Some`?  (`Option::take(&mut self.progress)` clears it, an
    assignment of `Some(..)` to the field sets it; every branch condition is left free, suspension
    points continue at their resume block).  Query: can the state machine reach its final `return`
    with `progress == None` while `BobState::into_outcome` (called unconditionally by
    `net::handle_connection` after `run`) unwraps it?  A satisfiable query is confirmed by the native
    witness d6 (real BobState, store actor gone)."""
    import re as _re
    name = "c10_bob_outcome"
    hits = find_body(bodies, r"net::codec::<impl at src/net/codec\.rs:\d+:\d+: \d+:\d+>::run::\{closure#0\}$", r"Poll<Result<keys::NamespaceId, net::AcceptError>>")
    outs = find_body(bodies, r"net::codec::<impl at src/net/codec\.rs:\d+:\d+: \d+:\d+>::into_outcome$")
    if len(hits) != 1 or len(outs) != 1:
        return dict(name=name, property="C10", verdict="inconclusive", detail="bodies not found uniquely (%d, %d)" % (len(hits), len(outs)), functions=[])
    body, outb = hits[0], outs[0]
    # does into_outcome panic on None?  (it does iff it calls Option::unwrap/expect on the progress field)
    out_text = "\n".join(st for b in outb.blocks.values() for st in b)
    unwraps = bool(_re.search(r"Option::<sync::SyncOutcome>::(unwrap|expect)\(", out_text))
    # classify blocks
    FIELD = r"\(\(\*_\d+\)\.2: std::option::Option<sync::SyncOutcome>\)"
    some_locals = set()
    for b in body.blocks.values():
        for st in b:
            m = _re.match(r"^(_\d+) = std::option::Option::<sync::SyncOutcome>::Some\(", st)
            if m:
                some_locals.add(m.group(1))
    takes_ref = {}
    for b in body.blocks.values():
        for st in b:
            m = _re.match(r"^(_\d+) = &mut " + FIELD + ";$", st)
            if m:
                takes_ref[m.group(1)] = True
    effect = {}      # block -> 'none' | 'some' | None
    resume = {}      # suspend state -> resume block
    final_blocks, suspend_blocks = [], {}
    bb0 = body.blocks["bb0"][-1]
    for k, tgt in _re.findall(r"(\d+): (bb\d+)", bb0):
        resume[int(k)] = tgt
    for bn, b in body.blocks.items():
        eff = None
        for st in b:
            m = _re.match(r"^" + FIELD + r" = move (_\d+);$", st)
            if m:
                eff = "some" if m.group(1) in some_locals else "unknown"
            m = _re.match(r"^_\d+ = std::option::Option::<sync::SyncOutcome>::take\(move (_\d+)\)", st)
            if m and m.group(1) in takes_ref:
                eff = "none"
            m = _re.match(r"^discriminant\(\(\*_\d+\)\) = (\d+);$", st)
            if m and b[-1].startswith("return"):
                k = int(m.group(1))
                if k == 1:
                    final_blocks.append(bn)
                elif k >= 3:
                    suspend_blocks[bn] = k
        effect[bn] = eff
    if not final_blocks or "unknown" in effect.values():
        return dict(name=name, property="C10", verdict="inconclusive", detail="could not classify the coroutine's blocks (final=%s)" % final_blocks, functions=[body.name])
    # edges
    edges = []
    for bn in body.blocks:
        if bn in suspend_blocks:
            edges.append((bn, resume.get(suspend_blocks[bn])))
            continue
        for s2 in body.successors(bn):
            if s2 in body.blocks:
                edges.append((bn, s2))
    # SMT (propositional): is there an inductive invariant — a set of (block, flag) facts that contains
    # the start, is closed under every edge of the real block graph, and excludes "final return with
    # progress == None"?  sat => such an invariant exists => unreachable; unsat => reachable.
    L = ["(set-logic QF_UF)"]
    names = {}
    for bn in body.blocks:
        for f in ("S", "N"):
            v = "inv_%s_%s" % (bn, f)
            names[(bn, f)] = v
            L.append("(declare-const %s Bool)" % v)
    start = resume.get(0, "bb1")

    def post(bn, f):
        e = effect[bn]
        return "S" if e == "some" else ("N" if e == "none" else f)

    L.append("(assert %s)" % names[(start, "S")])
    for (a2, b2) in edges:
        if b2 is None:
            continue
        for f in ("S", "N"):
            L.append("(assert (=> %s %s))" % (names[(a2, f)], names[(b2, post(a2, f))]))
    for fb in final_blocks:
        for f in ("S", "N"):
            if post(fb, f) == "N":
                L.append("(assert (not %s))" % names[(fb, f)])
    L.append("(check-sat)")
    verdict, detail = solve("\n".join(L), timeout=120)
    reach_none = {"unsat": True, "sat": False}.get(verdict)
    if reach_none is None:
        return dict(name=name, property="C10", verdict="inconclusive", detail="solver: %s" % verdict, functions=[body.name, outb.name])
    violated = reach_none and unwraps
    return dict(name=name, property="C10", verdict="violated" if violated else "holds",
                detail="final return reachable with progress=None: %s (blocks=%d, edges=%d, take sites=%d, restore sites=%d); into_outcome unwraps the field: %s"
                % (reach_none, len(body.blocks), len(edges), sum(1 for e in effect.values() if e == "none"), sum(1 for e in effect.values() if e == "some"), unwraps),
                functions=[body.name, outb.name], queries=1, witness="d6",
                check_message="the accepting side can always report its outcome after run returned")


QUERIES["C10"] = [q_c10_bob_outcome]
