"""E3 queries (DESIGN.md §3.5): each decides one piece of glue from the MIR of /repo's current tree.

A query returns dict(name, property, verdict in {'holds','violated','inconclusive'}, detail, functions, witness).
`witness` names a native public-API/in-crate witness program (verif-replay --witness <id>) that must
reproduce a 'violated' verdict against the real build before it is reported."""
import re

from mirsmt import Exec, Smt, solve, mk_deref, mk_v2b


def find_body(bodies, pattern, sig=None):
    hits = []
    for name, bs in bodies.items():
        if re.search(pattern, name):
            for b in bs:
                if sig is None or re.search(sig, b.args + " -> " + b.ret):
                    hits.append(b)
    return hits


def q_c03_reconcile_validation(bodies):
    """C03: the validate callback that `Replica::sync_process_message` hands to the reconciliation
    engine returns true only for entries that pass `validate_entry` (namespace, signatures, future
    bound) AND are well-formed w.r.t. emptiness (`validate_empty`) — i.e. the reconciliation
    path applies the same checks as `insert_remote_entry`."""
    name = "c03_reconcile_validation"
    hits = find_body(bodies, r"sync_process_message::\{closure#0\}::\{closure#0\}$", r"-> bool")
    if len(hits) != 1:
        return dict(name=name, property="C03", verdict="inconclusive", detail="validate closure not found uniquely (%d candidates)" % len(hits), functions=[])
    body = hits[0]
    smt = Smt()
    smt.fun("is_ok", 1, "Bool")
    smt.fun("wf", 1, "Bool")           # emptiness well-formedness of an Entry value
    smt.fun("fld_1", 1)                 # SignedEntry { signature, entry }: field 1 is the Entry
    smt.fun("validated", 5, "Bool")     # validate_entry(now, store, ns, entry, origin) is Ok
    called = []

    def result_with(ok_term):
        r = smt.const("res")
        smt.asserts.append("(= (is_ok %s) %s)" % (r, ok_term))
        return r

    def m_validate_entry(ex, vals):
        called.append(("validate_entry", vals))
        return result_with("(validated %s)" % " ".join(vals))

    def m_is_ok(ex, vals):
        return "(b2v (is_ok %s))" % mk_deref(vals[0])

    def m_signed_validate_empty(ex, vals):
        called.append(("validate_empty", vals))
        return result_with("(wf (fld_1 %s))" % mk_deref(vals[0]))

    def m_entry_validate_empty(ex, vals):
        called.append(("validate_empty", vals))
        return result_with("(wf %s)" % mk_deref(vals[0]))

    def m_entry_accessor(ex, vals):
        return "(ref (fld_1 %s))" % mk_deref(vals[0])

    models = {
        r"^validate_entry": m_validate_entry,
        r"Result::<.*>::is_ok$": m_is_ok,
        r"Result::<.*>::is_err$": lambda ex, v: "(b2v (not (is_ok %s)))" % mk_deref(v[0]),
        r"SignedEntry::validate_empty$|sync::<impl at src/sync.rs:7\d\d.*>::validate_empty$": m_signed_validate_empty,
        r"Entry::validate_empty$|sync::<impl at src/sync.rs:9\d\d.*>::validate_empty$": m_entry_validate_empty,
        r"SignedEntry::entry$|::entry$": m_entry_accessor,
    }
    ex = Exec(bodies, smt, models=models)
    args = [smt.const("closure_env"), smt.const("store"), smt.const("entry_ref"), smt.const("content_status")]
    try:
        paths = ex.run(body, args)
    except ValueError as e:
        return dict(name=name, property="C03", verdict="inconclusive", detail=str(e), functions=[body.name])
    accept = "(or false %s)" % " ".join("(and true %s %s)" % (" ".join(pc), mk_v2b(ret)) for pc, ret, _c, _e in paths)
    entry = mk_deref(args[2])
    results = {}
    # G1: accepted => validate_entry(.., this entry, ..) returned Ok, with the captured clock/namespace
    ve_calls = [v for (n, v) in called if n == "validate_entry"]
    if not ve_calls:
        g1 = "violated"
        d1 = "the closure never calls validate_entry"
    else:
        v = ve_calls[0]
        entry_arg_ok = "(= %s %s)" % (v[3], args[2])
        goal = "(and %s (not (and (validated %s) %s)))" % (accept, " ".join(v), entry_arg_ok)
        verdict, detail = solve(smt.script(goal))
        g1 = {"unsat": "holds", "sat": "violated"}.get(verdict, "inconclusive")
        d1 = "accepted and not(validate_entry ok for this entry): %s" % verdict
    # G2: accepted => the entry is well-formed w.r.t. emptiness
    goal = "(and %s (not (wf (fld_1 %s))))" % (accept, entry)
    verdict, detail = solve(smt.script(goal))
    g2 = {"unsat": "holds", "sat": "violated"}.get(verdict, "inconclusive")
    d2 = "accepted and not(validate_empty ok): %s" % verdict
    verdicts = [g1, g2]
    overall = "violated" if "violated" in verdicts else ("inconclusive" if "inconclusive" in verdicts else "holds")
    return dict(name=name, property="C03", verdict=overall,
                detail="G1 (validate_entry gates acceptance): %s [%s]; G2 (validate_empty gates acceptance): %s [%s]; paths=%d" % (g1, d1, g2, d2, len(paths)),
                functions=[body.name, "validate_entry (uninterpreted: decided by the Kani harness validate_entry_accepts)",
                           "validate_empty (uninterpreted: decided by the Kani harness validate_empty_table)"],
                queries=2, cases=len(paths) + 2, witness="d3",
                check_message="a reconciliation message only delivers entries that pass validate_entry and validate_empty")


QUERIES = {
    "C03": [q_c03_reconcile_validation],
}


# ------------------------------------------------------------------------------------------------
# C10: the accepting side can always report its outcome
# ------------------------------------------------------------------------------------------------

def q_c10_bob_outcome(bodies):
    """C10: `BobState::run` is an async fn; its MIR is the coroutine state machine (loops, yields).
    Abstraction decided by the solver: control-flow reachability over the REAL block graph with one
    tracked fact — is `self.progress` `Some`?  (`Option::take(&mut self.progress)` clears it, an
    assignment of `Some(..)` to the field sets it; every branch condition is left free, suspension
    points continue at their resume block).  Query: can the state machine reach its final `return`
    with `progress == None` while `BobState::into_outcome` (called unconditionally by
    `net::handle_connection` after `run`) unwraps it?  A satisfiable query is confirmed by the native
    witness d6 (real BobState, store actor gone)."""
    import re as _re
    name = "c10_bob_outcome"
    hits = find_body(bodies, r"net::codec::<impl at src/net/codec\.rs:\d+:\d+: \d+:\d+>::run::\{closure#0\}$", r"Poll<Result<keys::NamespaceId, net::AcceptError>>")
    outs = find_body(bodies, r"net::codec::<impl at src/net/codec\.rs:\d+:\d+: \d+:\d+>::into_outcome$")
    if len(hits) != 1 or len(outs) != 1:
        return dict(name=name, property="C10", verdict="inconclusive", detail="bodies not found uniquely (%d, %d)" % (len(hits), len(outs)), functions=[])
    body, outb = hits[0], outs[0]
    # does into_outcome panic on None?  (it does iff it calls Option::unwrap/expect on the progress field)
    out_text = "\n".join(st for b in outb.blocks.values() for st in b)
    unwraps = bool(_re.search(r"Option::<sync::SyncOutcome>::(unwrap|expect)\(", out_text))
    # classify blocks
    FIELD = r"\(\(\*_\d+\)\.2: std::option::Option<sync::SyncOutcome>\)"
    some_locals = set()
    for b in body.blocks.values():
        for st in b:
            m = _re.match(r"^(_\d+) = std::option::Option::<sync::SyncOutcome>::Some\(", st)
            if m:
                some_locals.add(m.group(1))
    takes_ref = {}
    for b in body.blocks.values():
        for st in b:
            m = _re.match(r"^(_\d+) = &mut " + FIELD + ";$", st)
            if m:
                takes_ref[m.group(1)] = True
    effect = {}      # block -> 'none' | 'some' | None
    resume = {}      # suspend state -> resume block
    final_blocks, suspend_blocks = [], {}
    bb0 = body.blocks["bb0"][-1]
    for k, tgt in _re.findall(r"(\d+): (bb\d+)", bb0):
        resume[int(k)] = tgt
    for bn, b in body.blocks.items():
        eff = None
        for st in b:
            m = _re.match(r"^" + FIELD + r" = move (_\d+);$", st)
            if m:
                eff = "some" if m.group(1) in some_locals else "unknown"
            m = _re.match(r"^_\d+ = std::option::Option::<sync::SyncOutcome>::take\(move (_\d+)\)", st)
            if m and m.group(1) in takes_ref:
                eff = "none"
            m = _re.match(r"^discriminant\(\(\*_\d+\)\) = (\d+);$", st)
            if m and b[-1].startswith("return"):
                k = int(m.group(1))
                if k == 1:
                    final_blocks.append(bn)
                elif k >= 3:
                    suspend_blocks[bn] = k
        effect[bn] = eff
    if not final_blocks or "unknown" in effect.values():
        return dict(name=name, property="C10", verdict="inconclusive", detail="could not classify the coroutine's blocks (final=%s)" % final_blocks, functions=[body.name])
    # edges
    edges = []
    for bn in body.blocks:
        if bn in suspend_blocks:
            edges.append((bn, resume.get(suspend_blocks[bn])))
            continue
        for s2 in body.successors(bn):
            if s2 in body.blocks:
                edges.append((bn, s2))
    # SMT (propositional): is there an inductive invariant — a set of (block, flag) facts that contains
    # the start, is closed under every edge of the real block graph, and excludes "final return with
    # progress == None"?  sat => such an invariant exists => unreachable; unsat => reachable.
    L = ["(set-logic QF_UF)"]
    names = {}
    for bn in body.blocks:
        for f in ("S", "N"):
            v = "inv_%s_%s" % (bn, f)
            names[(bn, f)] = v
            L.append("(declare-const %s Bool)" % v)
    start = resume.get(0, "bb1")

    def post(bn, f):
        e = effect[bn]
        return "S" if e == "some" else ("N" if e == "none" else f)

    L.append("(assert %s)" % names[(start, "S")])
    for (a2, b2) in edges:
        if b2 is None:
            continue
        for f in ("S", "N"):
            L.append("(assert (=> %s %s))" % (names[(a2, f)], names[(b2, post(a2, f))]))
    for fb in final_blocks:
        for f in ("S", "N"):
            if post(fb, f) == "N":
                L.append("(assert (not %s))" % names[(fb, f)])
    L.append("(check-sat)")
    verdict, detail = solve("\n".join(L), timeout=120)
    reach_none = {"unsat": True, "sat": False}.get(verdict)
    if reach_none is None:
        return dict(name=name, property="C10", verdict="inconclusive", detail="solver: %s" % verdict, functions=[body.name, outb.name])
    violated = reach_none and unwraps
    return dict(name=name, property="C10", verdict="violated" if violated else "holds",
                detail="final return reachable with progress=None: %s (blocks=%d, edges=%d, take sites=%d, restore sites=%d); into_outcome unwraps the field: %s"
                % (reach_none, len(body.blocks), len(edges), sum(1 for e in effect.values() if e == "none"), sum(1 for e in effect.values() if e == "some"), unwraps),
                functions=[body.name, outb.name], queries=1, cases=sum(1 for e in effect.values() if e) + len(final_blocks), witness="d6",
                check_message="the accepting side can always report its outcome after run returned")


QUERIES["C10"] = [q_c10_bob_outcome]


# ------------------------------------------------------------------------------------------------
# C14: open/close counting and the sticky sync switch (OpenReplicas::open_with / close)
# ------------------------------------------------------------------------------------------------

def _tracing_off_models():
    """tracing/log macros: every enabled-check answers 'disabled' (their expansions are loop-free
    side paths that rejoin); formatting helpers are opaque."""
    f = lambda ex, v: "(b2v false)"  # noqa
    t = lambda ex, v: "(b2v true)"  # noqa
    return {
        r"PartialOrd<.*LevelFilter>>::le$": f,
        r"Interest::is_never$": t,
        r"__macro_support::__is_enabled$": f,
        r"dispatcher::has_been_set$": t,
        r"Log>::enabled$": f,
    }


def q_c14_open_close(bodies):
    """C14: the real `OpenReplicas::open_with` and `OpenReplicas::close` (loop-free MIR; the HashMap
    entry API is modelled: `entry()` yields an Occupied or Vacant entry, `get_mut` a reference to
    the stored state, writes through it are tracked in a path-local heap).  Decided:
      close:  not open  -> returns true, removes nothing, writes nothing;
              open      -> handles' = handles.wrapping_sub(1); returns (handles' == 0); the entry is removed iff handles' == 0;
                           the sync flag is not written;
      open_with: open   -> handles' = handles + 1; sync' = sync || opts.sync; the store callback is not called;
                 not open -> the inserted state has handles = 1 and sync = opts.sync."""
    import re as _re
    name = "c14_open_close"
    closes = find_body(bodies, r"actor::<impl at src/actor\.rs:\d+:\d+: \d+:\d+>::close$", r"OpenReplicas.*-> bool")
    opens = find_body(bodies, r"actor::<impl at src/actor\.rs:\d+:\d+: \d+:\d+>::open_with$", r"OpenReplicas")
    if len(closes) != 1 or len(opens) != 1:
        return dict(name=name, property="C14", verdict="inconclusive", detail="bodies not found uniquely (%d, %d)" % (len(closes), len(opens)), functions=[])
    problems, nq = [], 0

    def mk():
        smt = Smt()
        smt.fun("discr", 1)
        smt.fun("fld_1", 1)
        smt.fun("fld_2", 1)
        smt.fun("wsub1", 1)
        smt.fun("add1", 1)
        log = {"removed": [], "inserted": [], "cb": []}

        def m_entry(ex, v):
            return smt.const("entry")

        def m_get_mut(ex, v):
            return "(ref (state_of %s))" % mk_deref(v[0]) if False else "(%s %s)" % (smt.fun("stateref", 1), mk_deref(v[0]))

        def m_remove(ex, v):
            log["removed"].append(v[0])
            return smt.const("removed")

        def m_insert(ex, v):
            log["inserted"].append(v)
            return smt.const("inserted_ref")

        def m_wsub(ex, v):
            return "(wsub1 %s)" % v[0] if v[1].startswith("k_1") or "1_usize" in v[1] else smt.const("wsub_other")

        def m_cb(ex, v):
            log["cb"].append(v)
            return smt.const("cb_result")

        models = dict(_tracing_off_models())
        models.update({
            r"HashMap::<.*>::entry$": m_entry,
            r"OccupiedEntry::<.*>::get_mut$": m_get_mut,
            r"OccupiedEntry::<.*>::remove_entry$": m_remove,
            r"VacantEntry::<.*>::insert$": m_insert,
            r"wrapping_sub$": m_wsub,
            r"FnMut<\(\)>>::call_mut$": m_cb,
        })
        return smt, models, log

    def is_occ(pc):
        return any(("discr" in c and "int_0" in c and not c.startswith("(not")) for c in pc) or any(c.startswith("(and (not") and "int_1" in c for c in pc)

    # ---------------- close ----------------
    smt, models, log = mk()
    ex = Exec(bodies, smt, models=models, max_paths=4000)
    args = [smt.const("self_ref"), smt.const("namespace")]
    try:
        paths = ex.run(closes[0], args)
    except ValueError as e:
        return dict(name=name, property="C14", verdict="inconclusive", detail="close: %s" % e, functions=[closes[0].name])
    n_occ = n_vac = 0
    for pc, ret, calls, env in paths:
        callees = [c[0] for c in calls]
        occupied = any("OccupiedEntry" in c and "get_mut" in c for c in callees)
        removed = any("remove_entry" in c for c in callees)
        writes = env.get("__writes", [])
        pcs = " ".join(pc) if pc else "true"
        if not occupied:
            n_vac += 1
            nq += 1
            v, _ = solve(smt.script("(and %s (not %s))" % (pcs, mk_v2b(ret))))
            if v != "unsat":
                problems.append(("close of a document that is not open returns true", v))
            if writes or removed:
                problems.append(("close of a document that is not open changes nothing", "structural"))
        else:
            n_occ += 1
            hw = [w for w in writes if w[1] == "2"]
            sw = [w for w in writes if w[1] == "1"]
            if sw:
                problems.append(("close does not touch the sync flag", "structural"))
            if len(hw) != 1:
                problems.append(("close writes the handle count exactly once", "structural"))
                continue
            ref, _f, newv = hw[0]
            old = "(fld_2 %s)" % mk_deref(ref)
            nq += 2
            v, _ = solve(smt.script("(and %s (not (= %s (wsub1 %s))))" % (pcs, newv, old)))
            if v != "unsat":
                problems.append(("every close of an open document releases exactly one handle", v))
            zero = "(= %s %s)" % (newv, ex._konst("0_usize"))
            v, _ = solve(smt.script("(and %s (not (= %s %s)))" % (pcs, mk_v2b(ret), zero)))
            if v != "unsat":
                problems.append(("close reports whether the document is closed afterwards", v))
            nq += 1
            v, _ = solve(smt.script("(and %s (not (= %s %s)))" % (pcs, "true" if removed else "false", zero)))
            if v != "unsat":
                problems.append(("the document is removed exactly when its last handle is released", v))
    if n_occ == 0 or n_vac == 0:
        problems.append(("close: both the open and the not-open case are explored (occ=%d, vac=%d)" % (n_occ, n_vac), "vacuous"))
    close_paths = len(paths)

    # ---------------- open_with ----------------
    smt, models, log = mk()
    ex = Exec(bodies, smt, models=models, max_paths=4000)
    args = [smt.const("self_ref"), smt.const("namespace"), smt.const("opts"), smt.const("open_cb")]
    try:
        paths = ex.run(opens[0], args)
    except ValueError as e:
        return dict(name=name, property="C14", verdict="inconclusive", detail="open_with: %s" % e, functions=[opens[0].name])
    opt_sync = "(fld_0 %s)" % args[2]
    smt.fun("fld_0", 1)
    n_occ = n_vac = 0
    for pc, ret, calls, env in paths:
        callees = [c[0] for c in calls]
        occupied = any("OccupiedEntry" in c and "get_mut" in c for c in callees)
        called_cb = any("call_mut" in c for c in callees)
        writes = env.get("__writes", [])
        pcs = " ".join(pc) if pc else "true"
        if occupied:
            n_occ += 1
            if called_cb:
                problems.append(("an additional open does not reload the document from the store", "structural"))
            hw = [w for w in writes if w[1] == "2"]
            sw = [w for w in writes if w[1] == "1"]
            if len(hw) != 1 or len(sw) != 1:
                problems.append(("an additional open writes the handle count and the sync flag once each (handles=%d, sync=%d)" % (len(hw), len(sw)), "structural"))
                continue
            ref = hw[0][0]
            old_h = "(fld_2 %s)" % mk_deref(ref)
            old_s = "(fld_1 %s)" % mk_deref(ref)
            # handles' = old + 1 : the written value is field 0 of AddWithOverflow(old, 1)
            nq += 2
            newh = hw[0][2]
            ok_h = ("op_AddWithOverflow %s" % old_h) in newh or ("op_Add %s" % old_h) in newh
            if not ok_h:
                problems.append(("every open adds exactly one handle", "structural: wrote %s" % newh[:80]))
            news = sw[0][2]
            v, _ = solve(smt.script("(and %s (not (= %s (or %s %s))))" % (pcs, mk_v2b(news), mk_v2b(old_s), mk_v2b(opt_sync))))
            if v != "unsat":
                problems.append(("enabling sync is sticky across additional opens", v))
        else:
            ins = [c for c in calls if "VacantEntry" in c[0] and "insert" in c[0]]
            if not ins:
                continue  # the store callback failed: error return, nothing inserted
            n_vac += 1
            if not called_cb:
                problems.append(("the first open loads the document from the store", "structural"))
            st = ins[0][1][1]
            m = _re.match(r"^\(mk_[A-Za-z_]*OpenReplica\S* (.+)\)$", st)
            if not m:
                problems.append(("the first open inserts a fresh state", "structural: %s" % st[:80]))
                continue
            nq += 1
            v, _ = solve(smt.script("(and %s (not (and (= %s %s))))" % (pcs, "true", "true")))
            parts = Exec.split_args(st[1:-1].replace(" ", ",", 0)) if False else None
            # the aggregate's operands, in field order: info, sync, handles
            ops = _split_sexpr_args(st)
            if len(ops) != 3 or not ("int_1" in ops[2] or "1_usize" in ops[2] or "k_1" in ops[2]):
                problems.append(("the first open holds exactly one handle", "structural: %s" % (ops[2] if len(ops) == 3 else st)[:80]))
            if len(ops) == 3:
                v, _ = solve(smt.script("(and %s (not (= %s %s)))" % (pcs, mk_v2b(ops[1]), mk_v2b(opt_sync))))
                if v != "unsat":
                    problems.append(("the first open takes the sync flag from its options", v))
    if n_occ == 0 or n_vac == 0:
        problems.append(("open_with: both the open and the not-open case are explored (occ=%d, vac=%d)" % (n_occ, n_vac), "vacuous"))
    verdict = "holds"
    if any(p[1] in ("inconclusive", "vacuous") for p in problems):
        verdict = "inconclusive"
    if any(p[1] not in ("inconclusive", "vacuous") for p in problems):
        verdict = "violated"
    return dict(name=name, property="C14", verdict=verdict,
                detail="close paths=%d, open_with paths=%d; problems: %s" % (close_paths, len(paths), problems or "none"),
                functions=[closes[0].name, opens[0].name, "HashMap::entry / OccupiedEntry::{get_mut,remove_entry} / VacantEntry::insert (modelled)"],
                queries=nq, cases=close_paths + len(paths), witness="c14",
                check_message=(problems[0][0] if problems else "open/close counting and sticky sync"))


def _find_ops(text):
    """all `(op_Ge|Gt|Le|Lt a b)` sub-terms of an s-expression text, with balanced arguments"""
    import re as _re
    out = []
    for m in _re.finditer(r"\(op_(Ge|Gt|Le|Lt) ", text):
        i = m.end()
        args = []
        for _ in range(2):
            while i < len(text) and text[i] == " ":
                i += 1
            j = i
            if text[i] == "(":
                d = 0
                while j < len(text):
                    if text[j] == "(":
                        d += 1
                    elif text[j] == ")":
                        d -= 1
                        if d == 0:
                            j += 1
                            break
                    j += 1
            else:
                while j < len(text) and text[j] not in " )":
                    j += 1
            args.append(text[i:j])
            i = j
        if len(args) == 2 and (m.group(1), args[0], args[1]) not in out:
            out.append((m.group(1), args[0], args[1]))
    return out


def _split_sexpr_args(t):
    """arguments of an s-expression `(f a b c)` at depth 1"""
    t = t.strip()
    assert t.startswith("(") and t.endswith(")")
    inner = t[1:-1]
    out, d, cur = [], 0, ""
    for ch in inner:
        if ch == "(":
            d += 1
        elif ch == ")":
            d -= 1
        if ch == " " and d == 0:
            if cur:
                out.append(cur)
            cur = ""
        else:
            cur += ch
    if cur:
        out.append(cur)
    return out[1:]


QUERIES["C14"] = [q_c14_open_close]


# ------------------------------------------------------------------------------------------------
# C07: the actor propagates an imported capability to an open replica only through merge
# ------------------------------------------------------------------------------------------------

def q_c07_actor_import(bodies):
    """C07: the `Action::ImportNamespace` handler of the store actor (a loop-free closure).
    Decided over all its paths: the open replica's state is never written directly — the only
    operation on it is `ReplicaInfo::merge_capability(&mut state.info, <the imported capability>)`
    for the document named by that capability; it happens whenever the store reports `Upgraded`
    and the document is open; the returned id is the imported capability's id.  (merge itself
    never downgrades: Kani harness capability_merge.)"""
    name = "c07_actor_import"
    hits = [b for b in find_body(bodies, r"actor::<impl at src/actor\.rs:\d+:\d+: \d+:\d+>::on_action::\{closure#0\}::\{closure#\d+\}$", r"&mut Actor -> Result<keys::NamespaceId")
            if "sync::Capability" in "\n".join(st for blk in b.blocks.values() for st in blk)]
    if len(hits) != 1:
        return dict(name=name, property="C07", verdict="inconclusive", detail="ImportNamespace closure not found uniquely (%d)" % len(hits), functions=[])
    body = hits[0]
    smt = Smt()
    smt.fun("discr", 1)
    smt.fun("fld_0", 1)
    smt.fun("fld_1", 1)
    calls_seen = []

    def m_id(ex, v):
        return "(%s %s)" % (smt.fun("cap_id", 1), mk_deref(v[0]))

    def m_clone(ex, v):
        return mk_deref(v[0])

    models = dict(_tracing_off_models())
    models.update({
        r"sync::Capability::id$": m_id,
        r"<sync::Capability as Clone>::clone$": m_clone,
    })
    ex = Exec(bodies, smt, models=models, max_paths=2000)
    args = [smt.const("closure_env"), smt.const("actor_ref")]
    try:
        paths = ex.run(body, args)
    except ValueError as e:
        return dict(name=name, property="C07", verdict="inconclusive", detail=str(e), functions=[body.name])
    cap = "(fld_0 %s)" % args[0]
    problems, nq = [], 0
    n_merge = n_upgraded_open = 0
    for pc, ret, calls, env in paths:
        pcs = " ".join(pc) if pc else "true"
        if env.get("__writes"):
            problems.append(("the open replica's state is changed only through merge_capability", "structural: direct write %s" % str(env["__writes"][0])[:100]))
        imports = [c for c in calls if c[0].endswith("Store::import_namespace")]
        getm = [c for c in calls if c[0].endswith("OpenReplicas::get_mut")]
        merges = [c for c in calls if "merge_capability" in c[0] or c[0].endswith("Capability::merge")]
        others = [c for c in calls if any("OpenReplica" in a or "stateref" in a for a in c[1]) and c not in getm and c not in merges]
        if len(imports) != 1:
            problems.append(("the capability is imported into the store exactly once", "structural"))
            continue
        nq += 1
        v, _ = solve(smt.script("(and %s (not (= %s %s)))" % (pcs, imports[0][1][1], cap)))
        if v != "unsat":
            problems.append(("the store receives the imported capability", v))
        for mcall in merges:
            n_merge += 1
            nq += 2
            v, _ = solve(smt.script("(and %s (not (= %s %s)))" % (pcs, mcall[1][1], cap)))
            if v != "unsat":
                problems.append(("merge_capability receives the imported capability", v))
            if not getm:
                problems.append(("merge_capability is applied to the replica looked up for this document", "structural"))
            else:
                v, _ = solve(smt.script("(and %s (not (= %s (cap_id %s))))" % (pcs, mk_deref(getm[0][1][1]), cap)))
                if v != "unsat":
                    problems.append(("the open replica is looked up by the imported capability's id", v))
        # Upgraded (discriminant 1) and open (get_mut Ok = discriminant 0) => merged
        upgraded = any(c.startswith("(= (discr (fld_0 (as_Continue") and c.endswith("k_int_1)") for c in pc)
        if getm:
            open_ok = any(c.startswith("(= (discr (call_OpenReplicas__get_mut") and c.endswith("k_int_0)") for c in pc)
            if upgraded and open_ok:
                n_upgraded_open += 1
                if not merges:
                    problems.append(("an upgrade reported by the store is merged into the open replica", "structural"))
    if n_merge == 0:
        problems.append(("some path merges the capability into the open replica", "vacuous"))
    verdict = "holds"
    if any(p[1] in ("inconclusive", "vacuous") for p in problems):
        verdict = "inconclusive"
    if any(p[1] not in ("inconclusive", "vacuous") for p in problems):
        verdict = "violated"
    return dict(name=name, property="C07", verdict=verdict,
                detail="paths=%d, merge sites reached=%d; problems: %s" % (len(paths), n_merge, problems or "none"),
                functions=[body.name, "Store::import_namespace / OpenReplicas::get_mut / ReplicaInfo::merge_capability (uninterpreted)"],
                queries=nq, cases=len(paths), witness="c07a",
                check_message=(problems[0][0] if problems else "actor propagates imported capabilities only through merge"))


QUERIES["C07"] = [q_c07_actor_import]


# ------------------------------------------------------------------------------------------------
# C12: the remote-insert event of the reconciliation path carries the callback's arguments
# ------------------------------------------------------------------------------------------------

def q_c12_event_fields(bodies):
    """C12: the closure that builds the subscriber event for an entry applied by a reconciliation
    message (`Replica::sync_process_message`, on_insert callback).  Decided: the event is a
    `RemoteInsert` whose `entry` is (a clone of) the applied entry, `from` the providing peer,
    `namespace` the replica's namespace, `remote_content_status` the status delivered with the entry,
    and `should_download` = `DownloadPolicy::matches(policy, entry.entry())`."""
    import re as _re
    name = "c12_event_fields"
    hits = find_body(bodies, r"sync_process_message::\{closure#0\}::\{closure#1\}::\{closure#0\}::\{closure#0\}$", r"-> sync::Event")
    if len(hits) != 1:
        return dict(name=name, property="C12", verdict="inconclusive", detail="event closure not found uniquely (%d)" % len(hits), functions=[])
    body = hits[0]
    # captured variables by name -> field index of the closure environment
    cap = {}
    for var, expr in body.debug.items():
        m = _re.match(r"^\(\*\(_1\.(\d+): .+\)\)$", expr)
        if m:
            cap[var] = m.group(1)
    need = ["download_policy", "entry", "from_peer", "my_namespace", "content_status"]
    if any(v not in cap for v in need):
        return dict(name=name, property="C12", verdict="inconclusive", detail="captures not identified: %s" % cap, functions=[body.name])
    smt = Smt()
    for i in range(6):
        smt.fun("fld_%d" % i, 1)
    smt.fun("policy_matches", 2)
    models = {
        r"SignedEntry::entry$": lambda ex, v: "(ref (fld_1 %s))" % mk_deref(v[0]),
        r"DownloadPolicy::matches$": lambda ex, v: "(policy_matches %s %s)" % (mk_deref(v[0]), mk_deref(v[1])),
        r"<sync::SignedEntry as Clone>::clone$": lambda ex, v: mk_deref(v[0]),
    }
    # the aggregate keeps field names: read them from the statement text
    agg = None
    for blk in body.blocks.values():
        for st in blk:
            m = _re.match(r"^_0 = sync::Event::(\w+) \{ (.+) \};$", st)
            if m:
                agg = (m.group(1), m.group(2))
    if agg is None:
        return dict(name=name, property="C12", verdict="violated", detail="the closure does not build an Event aggregate", functions=[body.name],
                    witness="c12", check_message="the reconciliation path announces applied entries as RemoteInsert events", queries=0)
    ex = Exec(bodies, smt, models=models)
    env_arg = smt.const("closure_env")
    # run to obtain the environment at the return
    paths = ex.run(body, [env_arg])
    if len(paths) != 1:
        return dict(name=name, property="C12", verdict="inconclusive", detail="expected one path, got %d" % len(paths), functions=[body.name])
    pc, ret, calls, env = paths[0]
    fields = {}
    for part in Exec.split_args(agg[1]):
        k, v = part.split(":", 1)
        fields[k.strip()] = ex.operand(env, v)
    c = lambda var: mk_deref("(fld_%s %s)" % (cap[var], env_arg))  # noqa: the captured value (captures are references)
    want = {
        "namespace": c("my_namespace"),
        "entry": c("entry"),
        "from": c("from_peer"),
        "remote_content_status": c("content_status"),
        "should_download": "(policy_matches %s (fld_1 %s))" % (c("download_policy"), c("entry")),
    }
    problems, nq = [], 0
    if agg[0] != "RemoteInsert":
        problems.append(("entries applied by a reconciliation message are announced as RemoteInsert", "structural: %s" % agg[0]))
    for k, w in want.items():
        if k not in fields:
            problems.append(("the event has a field %s" % k, "structural"))
            continue
        nq += 1
        v, _ = solve(smt.script("(not (= %s %s))" % (fields[k], w)))
        if v != "unsat":
            problems.append(("event field `%s` is the corresponding callback argument / policy decision" % k, v))
    verdict = "holds"
    if any(p[1] == "inconclusive" for p in problems):
        verdict = "inconclusive"
    if any(p[1] != "inconclusive" for p in problems):
        verdict = "violated"
    return dict(name=name, property="C12", verdict=verdict, detail="fields=%s; problems: %s" % (sorted(fields), problems or "none"),
                functions=[body.name, "DownloadPolicy::matches (uninterpreted: decided by the Kani harness policy_matches)"], queries=nq, cases=len(want), witness="c12",
                check_message=(problems[0][0] if problems else "remote insert event fields"))


QUERIES["C12"] = [q_c12_event_fields]


# ------------------------------------------------------------------------------------------------
# C16: removing a document clears every per-document table
# ------------------------------------------------------------------------------------------------

def _tables_fields():
    """field order of `struct Tables` (src/store/fs/tables.rs), read from the current source"""
    import re as _re
    src = open("/repo/src/store/fs/tables.rs").read()
    m = _re.search(r"pub struct Tables<'tx> \{(.*?)\n\}", src, _re.S)
    names = _re.findall(r"pub (\w+):", m.group(1)) if m else []
    return names


def q_c16_remove_tables(bodies):
    """C16: the closure of `Store::remove_replica` that runs inside the write transaction.
    Decided over all its paths: on the path that reports success, every table of `Tables` that holds
    per-document rows (all but `authors`) is the receiver of a removing operation whose key/range is
    derived from the removed namespace (records / by-key: `retain_in` over `RecordsBounds::namespace` /
    `ByKeyBounds::namespace` with a predicate that keeps nothing; the others: `remove`/`remove_all`/
    `retain_in`), and `authors` is not touched.  (What those ranges contain: Kani harnesses
    bounds_namespace / bounds_bykey.)  `remove_replica` itself refuses open documents first."""
    import re as _re
    name = "c16_remove_tables"
    hits = find_body(bodies, r"::remove_replica::\{closure#0\}$", r"&mut Tables<'_> -> Result<\(\), anyhow::Error>")
    outer = find_body(bodies, r"store::fs::<impl at src/store/fs\.rs:\d+:\d+: \d+:\d+>::remove_replica$")
    fields = _tables_fields()
    if len(hits) != 1 or len(outer) != 1 or "authors" not in fields:
        return dict(name=name, property="C16", verdict="inconclusive", detail="bodies/fields not found (%d, %d, %s)" % (len(hits), len(outer), fields), functions=[])
    body = hits[0]
    smt = Smt()
    for i in range(len(fields)):
        smt.fun("fld_%d" % i, 1)
    models = dict(_tracing_off_models())
    ex = Exec(bodies, smt, models=models, max_paths=4000)
    args = [smt.const("closure_env"), smt.const("tables_ref")]
    try:
        paths = ex.run(body, args)
    except ValueError as e:
        return dict(name=name, property="C16", verdict="inconclusive", detail=str(e), functions=[body.name])
    ns = mk_deref("(fld_0 %s)" % args[0])
    REMOVERS = ("retain_in", "retain", "remove_all", "remove", "extract_from_if", "extract_if", "pop_first", "pop_last")
    problems, nq = [], 0
    ok_paths = 0
    for pc, ret, calls, env in paths:
        # success path: the closure returns Result::Ok(())
        if "mk_Result" not in ret or "Ok" not in ret:
            continue
        ok_paths += 1
        touched = {}
        for callee, vals, _pc in calls:
            m = _re.search(r"(?:Table|MultimapTable)::<.*?>::(\w+)(?:::<.*>)?$", callee)
            if not m or not vals:
                continue
            m2 = _re.match(r"^\(ref \(fld_(\d+) \(deref %s\)\)\)$" % _re.escape(args[1]), vals[0])
            if not m2:
                continue
            idx = int(m2.group(1))
            if m.group(1) in REMOVERS:
                touched.setdefault(idx, []).append((m.group(1), vals))
        # pre-state: table i may hold rows of the removed document (free Boolean has_row_i); a removing
        # operation keyed by the removed namespace clears them; the solver decides whether any can survive
        post = []
        cap_ref = "(fld_0 %s)" % args[0]
        for i, fname in enumerate(fields):
            if fname == "authors":
                if i in touched:
                    problems.append(("removing a document does not touch the author keys", "structural"))
                continue
            hv = "has_row_%s" % fname
            if ("(declare-const %s Bool)" % hv) not in smt.decls:
                smt.decls.append("(declare-const %s Bool)" % hv)
            cleared = False
            for op, vals in touched.get(i, []):
                if any((ns in v) or (cap_ref in v) for v in vals[1:]):
                    cleared = True
            post.append((fname, "false" if cleared else hv))
        pcs = " ".join(pc) if pc else "true"
        for fname, term in post:
            nq += 1
            v, _ = solve(smt.script("(and %s %s)" % (pcs, term)))
            if v == "sat":
                problems.append(("removing a document clears its rows in table `%s`" % fname, "sat"))
            elif v != "unsat":
                problems.append(("removing a document clears its rows in table `%s`" % fname, "inconclusive"))
    if ok_paths == 0:
        problems.append(("a success path exists", "vacuous"))
    # the predicate closures of retain_in keep nothing
    for cb in find_body(bodies, r"::remove_replica::\{closure#0\}::\{closure#\d+\}$", r"-> bool"):
        txt = "\n".join(st for blk in cb.blocks.values() for st in blk)
        if "_0 = const false;" not in txt:
            problems.append(("the retain predicates of remove_replica keep nothing", "structural"))
    # the outer function refuses open documents before touching the tables
    otxt = "\n".join(st for blk in outer[0].blocks.values() for st in blk)
    if "HashSet::<keys::NamespaceId>::contains" not in otxt and "contains" not in otxt:
        problems.append(("removing a document is refused while it is open", "structural"))
    verdict = "holds"
    if any(p[1] in ("inconclusive", "vacuous") for p in problems):
        verdict = "inconclusive"
    if any(p[1] not in ("inconclusive", "vacuous") for p in problems):
        verdict = "violated"
    return dict(name=name, property="C16", verdict=verdict, detail="tables=%s; success paths=%d of %d; problems: %s" % (fields, ok_paths, len(paths), problems or "none"),
                functions=[body.name, outer[0].name], queries=max(nq, 1), cases=len(fields) - 1, witness="d7",
                check_message=(problems[0][0] if problems else "remove_replica clears every per-document table"))


QUERIES["C16"] = [q_c16_remove_tables]


# ------------------------------------------------------------------------------------------------
# C13: the stored author head only moves forward
# ------------------------------------------------------------------------------------------------

def q_c13_head_update(bodies):
    """C13: the closure of `StoreInstance::entry_put` that writes the three record tables.  The
    stored head of an author must be the greatest timestamp among the author's entries, so writing
    an entry may replace the head row only by a timestamp that is not older than the stored one.
    Ghost pre-state: the head row for (namespace, author) is absent, or present with timestamp OLD.
    Decided per path that reports success: if the head row is (re)written, its timestamp is the
    entry's and (row present => new >= OLD); if it is not written, the row is present and OLD >= new."""
    import re as _re
    name = "c13_head_update"
    hits = find_body(bodies, r"::entry_put::\{closure#0\}$", r"&mut Tables<'_> -> Result<\(\), anyhow::Error>")
    fields = _tables_fields()
    if len(hits) != 1 or "latest_per_author" not in fields:
        return dict(name=name, property="C13", verdict="inconclusive", detail="entry_put closure not found uniquely (%d)" % len(hits), functions=[])
    body = hits[0]
    K = fields.index("latest_per_author")
    smt = Smt()
    for i in range(len(fields)):
        smt.fun("fld_%d" % i, 1)
    smt.fun("discr", 1)
    smt.fun("ts_of", 1)
    smt.decls.append("(declare-fun ge (V V) Bool)")
    args = [smt.const("closure_env"), smt.const("tables_ref")]
    head_tbl = "(ref (fld_%d (deref %s)))" % (K, args[1])
    state = {"get": None, "inserts": []}

    def m_get(ex, v):
        if v[0] == head_tbl:
            state["get"] = smt.const("head_get_res")
            return state["get"]
        return smt.const("other_get")

    def m_insert(ex, v):
        if v[0] == head_tbl:
            state["inserts"].append(v)
        return smt.const("insert_res")

    models = dict(_tracing_off_models())
    models.update({
        r"(Table::<.*>|ReadableTable<.*>>)::get(::<.*>)?$": m_get,
        r"Table::<.*>::insert(::<.*>)?$": m_insert,
        r"SignedEntry::timestamp$|Entry::timestamp$|Record::timestamp$": lambda ex, v: "(ts_of %s)" % mk_deref(v[0]),
    })
    ex = Exec(bodies, smt, models=models, max_paths=4000)
    try:
        paths = ex.run(body, args)
    except ValueError as e:
        return dict(name=name, property="C13", verdict="inconclusive", detail=str(e), functions=[body.name])
    problems, nq, ok_paths = [], 0, 0
    for pc, ret, calls, env in paths:
        if "mk_Result" not in ret or "Ok" not in ret:
            continue
        ok_paths += 1
        gets = [c for c in calls if _re.search(r"(Table::<.*>|ReadableTable<.*>>)::get", c[0]) and c[1] and c[1][0] == head_tbl]
        ins = [c for c in calls if _re.search(r"Table::<.*>::insert", c[0]) and c[1] and c[1][0] == head_tbl]
        pcs = " ".join(pc) if pc else "true"
        extra = []
        if gets:
            # the value the code reads: `?` unpacking, Option match, guard.value().0
            R = None
            for c in calls:
                pass
            # find the constant returned for the head get on this path: it is the unique head_get_res_* symbol in pcs/terms
            syms = sorted(set(_re.findall(r"head_get_res_\d+", pcs + " " + " ".join(" ".join(c[1]) for c in calls))))
            if len(syms) != 1:
                problems.append(("the stored head is read at most once per write", "inconclusive"))
                continue
            R = syms[0]
            allterms = pcs + " " + " ".join(" ".join(c[1]) for c in calls)
            mopt = _re.search(r"\(fld_0 \(as_Continue \((call_[A-Za-z0-9_]*branch) %s\)\)\)" % R, allterms)
            if not mopt:
                problems.append(("the head lookup is unpacked in a recognised way", "inconclusive"))
                continue
            OPT = mopt.group(0)
            present = "(= (discr %s) k_int_1)" % OPT
            mold = _re.search(r"\(fld_0 \((call_[A-Za-z0-9_]*value) \(ref \(fld_0 \(as_Some %s\)\)\)\)\)" % _re.escape(OPT), allterms)
            if not mold:
                # the stored timestamp is never looked at
                OLD = smt.const("old_head_ts")
            else:
                OLD = mold.group(0)
        else:
            present = smt.const("head_present_b")
            smt.decls[-1] = "(declare-const %s Bool)" % present
            OLD = smt.const("old_head_ts")
        # order operators that appear in the path condition, defined over one total preorder `ge`
        for op, a, b2 in _find_ops(pcs):
            t = "(op_%s %s %s)" % (op, a, b2)
            d = {"Ge": "(ge %s %s)" % (a, b2), "Gt": "(not (ge %s %s))" % (b2, a), "Le": "(ge %s %s)" % (b2, a), "Lt": "(not (ge %s %s))" % (a, b2)}[op]
            extra.append("(= (v2b %s) %s)" % (t, d))
        if ins:
            val = ins[0][1][2]
            ops = _split_sexpr_args(val) if val.startswith("(mk_tuple") else []
            NEW = ops[0] if ops else val
        else:
            NEW = "(ts_of %s)" % mk_deref("(fld_0 %s)" % args[0]) if False else None
        # the entry's timestamp as the code computes it (any ts_of term in this path)
        tsn = sorted(set(_re.findall(r"\(ts_of [^()]*(?:\([^()]*(?:\([^()]*\)[^()]*)*\)[^()]*)*\)", pcs + " " + " ".join(" ".join(c[1]) for c in calls))))
        ENTRY_TS = tsn[0] if tsn else smt.const("entry_ts")
        extra.append("(or (ge %s %s) (ge %s %s))" % (ENTRY_TS, OLD, OLD, ENTRY_TS))
        ctx = "(and true %s %s)" % (pcs, " ".join(extra))
        if ins:
            nq += 2
            v, _ = solve(smt.script("(and %s (not (= %s %s)))" % (ctx, NEW, ENTRY_TS)))
            if v != "unsat":
                problems.append(("a rewritten head carries the written entry's timestamp", v))
            v, _ = solve(smt.script("(and %s %s (not (ge %s %s)))" % (ctx, present, ENTRY_TS, OLD)))
            if v != "unsat":
                problems.append(("an entry older than the author's stored head does not lower the head", v))
        else:
            nq += 1
            v, _ = solve(smt.script("(and %s (not (and %s (ge %s %s))))" % (ctx, present, OLD, ENTRY_TS)))
            if v != "unsat":
                problems.append(("the head is left alone only if a head that is not older is already stored", v))
    if ok_paths == 0:
        problems.append(("a success path exists", "vacuous"))
    verdict = "holds"
    if any(p[1] in ("inconclusive", "vacuous") for p in problems):
        verdict = "inconclusive"
    if any(p[1] not in ("inconclusive", "vacuous") for p in problems):
        verdict = "violated"
    return dict(name=name, property="C13", verdict=verdict, detail="success paths=%d of %d; problems: %s" % (ok_paths, len(paths), problems or "none"),
                functions=[body.name, "redb Table::get/insert on latest_per_author (modelled: ghost head row)"], queries=nq, cases=len(paths), witness="d4",
                check_message=(problems[0][0] if problems else "the stored author head only moves forward"))


QUERIES["C13"] = [q_c13_head_update]


# ------------------------------------------------------------------------------------------------
# generic: reachability of a coroutine's final return with a tracked Boolean fact
# ------------------------------------------------------------------------------------------------

def coroutine_reach(body, sets, clears, init, goal_value):
    """Is the final `return` (coroutine discriminant := 1) of an async body reachable with the tracked
    fact == goal_value?  `sets(bn, stmts)` / `clears(bn, stmts)` say whether a block sets / clears the
    fact.  Branch conditions are free; suspension points continue at their resume block.  Encoded
    as the non-existence of an inductive invariant (propositional; exact for this abstraction).
    Returns (reachable: True/False/None, stats)."""
    import re as _re
    resume, final_blocks, suspend = {}, [], {}
    bb0 = body.blocks["bb0"][-1]
    for k, tgt in _re.findall(r"(\d+): (bb\d+)", bb0):
        resume[int(k)] = tgt
    effect = {}
    for bn, b in body.blocks.items():
        eff = None
        if sets(bn, b):
            eff = True
        if clears(bn, b):
            eff = False
        effect[bn] = eff
        for st in b:
            m = _re.match(r"^discriminant\(\(\*_\d+\)\) = (\d+);$", st)
            if m and b[-1].startswith("return"):
                k = int(m.group(1))
                if k == 1:
                    final_blocks.append(bn)
                elif k >= 3:
                    suspend[bn] = k
    if not final_blocks:
        return None, {"error": "no final return found"}
    edges = []
    for bn in body.blocks:
        if bn in suspend:
            edges.append((bn, resume.get(suspend[bn])))
            continue
        for s2 in body.successors(bn):
            if s2 in body.blocks:
                edges.append((bn, s2))
    L = ["(set-logic QF_UF)"]
    nm = {}
    for bn in body.blocks:
        for f in ("T", "F"):
            nm[(bn, f)] = "inv_%s_%s" % (bn, f)
            L.append("(declare-const %s Bool)" % nm[(bn, f)])

    def post(bn, f):
        e = effect[bn]
        return f if e is None else ("T" if e else "F")

    start = resume.get(0, "bb1")
    L.append("(assert %s)" % nm[(start, "T" if init else "F")])
    for (a2, b2) in edges:
        if b2 is None:
            continue
        for f in ("T", "F"):
            L.append("(assert (=> %s %s))" % (nm[(a2, f)], nm[(b2, post(a2, f))]))
    g = "T" if goal_value else "F"
    for fb in final_blocks:
        for f in ("T", "F"):
            if post(fb, f) == g:
                L.append("(assert (not %s))" % nm[(fb, f)])
    L.append("(check-sat)")
    verdict, _ = solve("\n".join(L), timeout=120)
    reach = {"unsat": True, "sat": False}.get(verdict)
    return reach, {"blocks": len(body.blocks), "edges": len(edges), "set_sites": sum(1 for e in effect.values() if e is True),
                   "clear_sites": sum(1 for e in effect.values() if e is False), "final": len(final_blocks)}


def q_c11_connect_glue(bodies):
    """C11 glue: `LiveActor::on_sync_via_connect_finished` (async).  Every way a dial can end must
    either hand the result to `on_sync_finished` (which calls `state.finish`) or free the slot with
    `state.abort_connect` — otherwise the dialer stays marked busy for ever.  Decided as reachability
    over the real MIR block graph: can the handler return without having called one of the two?
    (The Kani scenario harnesses mirror exactly this glue in `dial_ends`.)"""
    name = "c11_connect_glue"
    hits = find_body(bodies, r"on_sync_via_connect_finished::\{closure#0\}::\{closure#0\}$", r"Poll<\(\)>")
    if len(hits) != 1:
        return dict(name=name, property="C11", verdict="inconclusive", detail="handler body not found uniquely (%d)" % len(hits), functions=[])
    body = hits[0]
    import re as _re
    CALL = _re.compile(r"^_\d+ = (NamespaceStates::abort_connect|LiveActor::on_sync_finished|NamespaceStates::finish)\(")
    sets = lambda bn, b: any(CALL.match(st) for st in b)  # noqa
    reach, stats = coroutine_reach(body, sets, lambda bn, b: False, init=False, goal_value=False)
    if reach is None:
        return dict(name=name, property="C11", verdict="inconclusive", detail="solver/structure: %s" % stats, functions=[body.name])
    if stats["set_sites"] == 0:
        return dict(name=name, property="C11", verdict="violated", detail="the handler never finishes or frees the sync state: %s" % stats, functions=[body.name],
                    queries=1, cases=1, witness=None, check_message="a finished, failed or declined dial always finishes or frees the dialer's sync state")
    return dict(name=name, property="C11", verdict="violated" if reach else "holds",
                detail="return reachable without finish/abort_connect: %s; %s" % (reach, stats), functions=[body.name], queries=1,
                cases=stats["set_sites"] + stats["final"], witness=None,
                check_message="a finished, failed or declined dial always finishes or frees the dialer's sync state")


QUERIES["C11"] = [q_c11_connect_glue]
