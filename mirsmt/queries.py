"""E3 queries (DESIGN.md §3.5): each decides one piece of glue from the MIR of /repo's current tree.

A query returns dict(name, property, verdict in {'holds','violated','inconclusive'}, detail, functions, witness).
`witness` names a native public-API/in-crate witness program (verif-replay --witness <id>) that must
reproduce a 'violated' verdict against the real build before it is reported."""
import re

from mirsmt import Exec, Smt, solve, mk_deref, mk_v2b


def find_body(bodies, pattern, sig=None):
    hits = []
    for name, bs in bodies.items():
        if re.search(pattern, name):
            for b in bs:
                if sig is None or re.search(sig, b.args + " -> " + b.ret):
                    hits.append(b)
    return hits


def q_c03_reconcile_validation(bodies):
    """C03: the validate callback that `Replica::sync_process_message` hands to the reconciliation
    engine returns true only for entries that pass `validate_entry` (namespace, signatures, future
    bound) AND are well-formed w.r.t. emptiness (`validate_empty`) — i.e. the reconciliation
    path applies the same checks as `insert_remote_entry`."""
    name = "c03_reconcile_validation"
    hits = find_body(bodies, r"sync_process_message::\{closure#0\}::\{closure#0\}$", r"-> bool")
    if len(hits) != 1:
        return dict(name=name, property="C03", verdict="inconclusive", detail="validate closure not found uniquely (%d candidates)" % len(hits), functions=[])
    body = hits[0]
    smt = Smt()
    smt.fun("is_ok", 1, "Bool")
    smt.fun("wf", 1, "Bool")           # emptiness well-formedness of an Entry value
    smt.fun("fld_1", 1)                 # SignedEntry { signature, entry }: field 1 is the Entry
    smt.fun("validated", 5, "Bool")     # validate_entry(now, store, ns, entry, origin) is Ok
    called = []

    def result_with(ok_term):
        r = smt.const("res")
        smt.asserts.append("(= (is_ok %s) %s)" % (r, ok_term))
        return r

    def m_validate_entry(ex, vals):
        called.append(("validate_entry", vals))
        return result_with("(validated %s)" % " ".join(vals))

    def m_is_ok(ex, vals):
        return "(b2v (is_ok %s))" % mk_deref(vals[0])

    def m_signed_validate_empty(ex, vals):
        called.append(("validate_empty", vals))
        return result_with("(wf (fld_1 %s))" % mk_deref(vals[0]))

    def m_entry_validate_empty(ex, vals):
        called.append(("validate_empty", vals))
        return result_with("(wf %s)" % mk_deref(vals[0]))

    def m_entry_accessor(ex, vals):
        return "(ref (fld_1 %s))" % mk_deref(vals[0])

    models = {
        r"^validate_entry": m_validate_entry,
        r"Result::<.*>::is_ok$": m_is_ok,
        r"Result::<.*>::is_err$": lambda ex, v: "(b2v (not (is_ok %s)))" % mk_deref(v[0]),
        r"SignedEntry::validate_empty$|sync::<impl at src/sync.rs:7\d\d.*>::validate_empty$": m_signed_validate_empty,
        r"Entry::validate_empty$|sync::<impl at src/sync.rs:9\d\d.*>::validate_empty$": m_entry_validate_empty,
        r"SignedEntry::entry$|::entry$": m_entry_accessor,
    }
    ex = Exec(bodies, smt, models=models)
    args = [smt.const("closure_env"), smt.const("store"), smt.const("entry_ref"), smt.const("content_status")]
    try:
        paths = ex.run(body, args)
    except ValueError as e:
        return dict(name=name, property="C03", verdict="inconclusive", detail=str(e), functions=[body.name])
    accept = "(or false %s)" % " ".join("(and true %s %s)" % (" ".join(pc), mk_v2b(ret)) for pc, ret, _ in paths)
    entry = mk_deref(args[2])
    results = {}
    # G1: accepted => validate_entry(.., this entry, ..) returned Ok, with the captured clock/namespace
    ve_calls = [v for (n, v) in called if n == "validate_entry"]
    if not ve_calls:
        g1 = "violated"
        d1 = "the closure never calls validate_entry"
    else:
        v = ve_calls[0]
        entry_arg_ok = "(= %s %s)" % (v[3], args[2])
        goal = "(and %s (not (and (validated %s) %s)))" % (accept, " ".join(v), entry_arg_ok)
        verdict, detail = solve(smt.script(goal))
        g1 = {"unsat": "holds", "sat": "violated"}.get(verdict, "inconclusive")
        d1 = "accepted and not(validate_entry ok for this entry): %s" % verdict
    # G2: accepted => the entry is well-formed w.r.t. emptiness
    goal = "(and %s (not (wf (fld_1 %s))))" % (accept, entry)
    verdict, detail = solve(smt.script(goal))
    g2 = {"unsat": "holds", "sat": "violated"}.get(verdict, "inconclusive")
    d2 = "accepted and not(validate_empty ok): %s" % verdict
    verdicts = [g1, g2]
    overall = "violated" if "violated" in verdicts else ("inconclusive" if "inconclusive" in verdicts else "holds")
    return dict(name=name, property="C03", verdict=overall,
                detail="G1 (validate_entry gates acceptance): %s [%s]; G2 (validate_empty gates acceptance): %s [%s]; paths=%d" % (g1, d1, g2, d2, len(paths)),
                functions=[body.name, "validate_entry (uninterpreted: decided by the Kani harness validate_entry_accepts)",
                           "validate_empty (uninterpreted: decided by the Kani harness validate_empty_table)"],
                queries=2, witness="d3",
                check_message="a reconciliation message only delivers entries that pass validate_entry and validate_empty")


QUERIES = {
    "C03": [q_c03_reconcile_validation],
}
