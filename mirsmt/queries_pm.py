"""E3 queries for C01 (and C08's "same sequence of protocol messages") over the REAL generic
`ranger::Store::process_message` coroutine (src/ranger.rs), executed from bb0 to its final return (Exec2) together
with its closures — the diff filter (`{closure#0}` and the `any` predicate inside it), the three content-status
async blocks, the pivot closure `{closure#3}` and its three adaptors — over a MODEL of the generic store:

    the store is the reference ordered map: K entries E0 < E1 < ... in key order; `get_range(r)` yields, in key
    order, the entries whose key lies in r ([x, y) for x < y; everything for x = y; the complement of [y, x) for
    x > y — the documented meaning of `Range`); `get_fingerprint(r)` is an uninterpreted function of r.

The code under test is generic over the key type and touches keys only through `Ord` / `Eq` / `Clone`, so its
behaviour is a function of the ORDER TYPE of the keys involved (the stored keys, the bounds x and y of the received
part, the keys of received values).  Each run fixes one order type (a "case": where x and y fall between / on the
stored keys), which makes every loop count concrete; all key comparisons made on the path are recorded and the solver
(z3 + cvc5) confirms that the order type implies every one of them.  What stays symbolic and is decided by the solver
per path: the actual key positions (integers under the case's order constraints), an ARBITRARY probe key P for the
partition law, the received fingerprint, `max_set_size`, value comparisons and content statuses.

pm_fingerprint_reply — one `RangeFingerprint{(x, y), fp}` part, every case with K <= 3 (thorough 4) stored entries,
split_factor in {2, 3} (thorough 4):
  * equal fingerprints: no reply (None);
  * fewer than two local entries in the range, or fp = fingerprint of the empty set: reply = one item part with the
    SAME range, exactly the local entries of the range in key order, each with `content_status_cb(entry)`, have_local
    = false;
  * otherwise (recursion): the reply parts' ranges PARTITION the received range — for every key P: P in (x, y)  <=>
    P lies in exactly one reply range — every reply range holds strictly fewer local entries than the received range
    (progress), a part is an item part iff it holds at most `max_set_size` entries, item parts carry exactly the local
    entries of their range (key order, callback statuses, have_local = false), fingerprint parts carry
    `get_fingerprint` of exactly their range; no arithmetic assertion (division by zero, overflow) and no
    `expect("missing entry")` fails.
pm_item_reply — one `RangeItem{(x, y), values, have_local}` part with <= 2 received values whose keys are equal to
stored keys or not (every pattern), value comparisons symbolic:
  * have_local = true: no reply; otherwise the reply is one item part for the same range with have_local = true
    holding exactly the local entries of the range that are NOT dominated by a received value with the same key and a
    value >= theirs, in key order, with callback statuses; an empty diff sends nothing;
  * the diff is computed before the received values are stored; each received value goes through validate -> put ->
    on_insert (details: pm_item_loop).
"""
import itertools
import os
import re

from mirsmt import Smt, solve, solve_batch, mk_deref, mk_v2b, split_sexpr_args, sanitize
from exec2 import Exec2, is_addr
from stdmodels import Inconclusive, PMExec, _deep
from queries_c05 import _find, _src, _struct_fields

THOROUGH = os.environ.get("VERIF_E3_TIER", "quick") == "thorough"


LAST_PROBLEMS = []


# ------------------------------------------------------------------------------------------------
# order types
# ------------------------------------------------------------------------------------------------

def _slot_rel(smt_pos, slot, K):
    """constraints placing a key with position term `smt_pos` at `slot` (0..2K): odd 2j+1 = equal to E_j's key,
    even 2j = strictly between E_{j-1} and E_j"""
    c = []
    if slot % 2 == 1:
        c.append("(= %s (pos (key_of E%d)))" % (smt_pos, slot // 2))
    else:
        j = slot // 2
        if j > 0:
            c.append("(> %s (pos (key_of E%d)))" % (smt_pos, j - 1))
        if j < K:
            c.append("(< %s (pos (key_of E%d)))" % (smt_pos, j))
    return c


def _in_range_slots(sx, sy, st):
    """ordered-map definition of Range membership on slots"""
    if sx == sy:
        return True
    if sx < sy:
        return sx <= st < sy
    return st >= sx or st < sy


def _range_formula(x, y, p):
    """SMT: key with position p lies in Range{x, y} (positions as Int terms)"""
    return "(ite (= %s %s) true (ite (< %s %s) (and (<= %s %s) (< %s %s)) (or (<= %s %s) (< %s %s))))" % (x, y, x, y, x, p, p, y, x, p, p, y)


class Case:
    def __init__(self, K, slots, ties=None):
        self.K = K
        self.ties = dict(ties or {})      # (a, b) -> -1 | 1 for two foreign keys in the same gap
        self.slots = dict(slots)          # key term -> slot
        for i in range(K):
            self.slots["(key_of E%d)" % i] = 2 * i + 1

    def slot(self, t):
        if t not in self.slots:
            raise Inconclusive("comparison of a key the case does not place: %s" % t[:80])
        return self.slots[t]

    def order(self, a, b):
        sa, sb = self.slot(a), self.slot(b)
        if a == b:
            return 0
        if sa == sb and sa % 2 == 0:
            o = self.ties.get((a, b))
            if o is None:
                raise Inconclusive("order of %s and %s not fixed by the case" % (a[:30], b[:30]))
            return o
        return (sa > sb) - (sa < sb)

    def in_range(self, x, y, i):
        """ordered-map definition: is stored entry i inside Range{x, y}?"""
        o = self.order(x, y)
        if o == 0:
            return True
        t = 2 * i + 1
        ge_x = t >= self.slot(x)
        lt_y = t < self.slot(y)
        return (ge_x and lt_y) if o < 0 else (ge_x or lt_y)

    def ctx(self):
        c = ["(< (pos (key_of E%d)) (pos (key_of E%d)))" % (i, i + 1) for i in range(self.K - 1)]
        for t, s in self.slots.items():
            if not t.startswith("(key_of E"):
                c += _slot_rel("(pos %s)" % t, s, self.K)
        for (a, b), o in self.ties.items():
            c.append("(%s (pos %s) (pos %s))" % ("<" if o < 0 else ">", a, b))
        return c


# ------------------------------------------------------------------------------------------------
# models
# ------------------------------------------------------------------------------------------------

def _setup(smt, K, nvals=0):
    for f, n in (("C_Ok", 1), ("C_Err", 1), ("C_Some", 1), ("C_None", 0), ("C_Continue", 1), ("C_Break", 1), ("CE_Poll_Ready", 1), ("CE_Poll_Pending", 0),
                 ("discr", 1), ("C_pin", 1), ("C_tuple2", 2), ("C_tuple3", 3), ("C_seq", 1), ("C_lazy", 3), ("C_collectfut", 1), ("C_csfut", 2), ("key_of", 1), ("val_of", 1),
                 ("cs", 1), ("fp_of", 1), ("C_range", 2), ("C_rangefp", 2), ("C_rangeitem", 3), ("CE_MessagePart_RangeFingerprint", 1), ("CE_MessagePart_RangeItem", 1),
                 ("C_msg", 1), ("C_cfg", 2), ("clone_of", 1)):
        smt.fun(f, n)
    for c in ("CORO", "CX", "STORE", "CFG", "VALCB", "INSCB", "CSCB", "X", "Y", "FPIN", "FPEMPTY", "MAXSET", "UNIT", "PUTERR"):
        smt.decls.append("(declare-const %s V)" % c)
    for i in range(K):
        smt.decls.append("(declare-const E%d V)" % i)
    for i in range(nvals):
        smt.decls.append("(declare-const R%d V)" % i)
        smt.decls.append("(declare-const S%d V)" % i)
        smt.decls.append("(declare-const valid_%d Bool)" % i)
        smt.decls.append("(declare-const inserted_%d Bool)" % i)
    smt.decls.append("(declare-fun pos (V) Int)")
    smt.decls.append("(declare-fun toint (V) Int)")
    smt.decls.append("(declare-fun fpeq (V V) Bool)")
    smt.decls.append("(declare-fun vge (V V) Bool)")
    smt.decls.append("(declare-const P Int)")
    smt.asserts.append("(>= (toint MAXSET) 0)")


def _models(smt, case, SF, st, received=None):
    """`case`: Case; SF: split factor (int); st: dict for bookkeeping; received: list of (entry term, status term)"""
    K = case.K
    entries = ["E%d" % i for i in range(K)]

    def cmp_keys(ex, env, a, b):
        a, b = _deep(ex, env, a), _deep(ex, env, b)
        r = case.order(a, b)
        rel = {-1: "<", 0: "=", 1: ">"}[r]
        env["__cmps"] = env.get("__cmps", ()) + ("(%s (pos %s) (pos %s))" % (rel, a, b),)
        return r

    def m_key_cmp(op):
        def f(ex, v, env):
            r = cmp_keys(ex, env, v[0], v[1])
            res = {"ge": r >= 0, "gt": r > 0, "le": r <= 0, "lt": r < 0, "eq": r == 0, "ne": r != 0}[op]
            return "(b2v %s)" % ("true" if res else "false")
        f.wants_env = True
        return f

    def m_val_ge(ex, v, env):
        a, b = _deep(ex, env, v[0]), _deep(ex, env, v[1])
        c = "(vge %s %s)" % (a, b)
        return [(c, "(b2v true)"), ("(not %s)" % c, "(b2v false)")]
    m_val_ge.wants_env = True

    def range_parts(ex, env, r):
        r = _deep(ex, env, r)
        if r.startswith("(C_range ") or r.startswith("(mk_ranger__Range"):
            x, y = split_sexpr_args(r)
            return _deep(ex, env, x), _deep(ex, env, y)
        raise Inconclusive("a range the query does not understand: %s" % r[:80])

    def local_in(ex, env, r):
        x, y = range_parts(ex, env, r)
        return [e for i, e in enumerate(entries) if case.in_range(x, y, i)], (x, y)

    def m_get_range(ex, v, env):
        loc, (x, y) = local_in(ex, env, v[1])
        env["__getranges"] = env.get("__getranges", ()) + ((x, y),)
        return "(C_Ok %s)" % ex.new_seq(env, ["(C_Ok %s)" % e for e in loc])
    m_get_range.wants_env = True

    def m_get_range_len(ex, v, env):
        loc, _ = local_in(ex, env, v[1])
        return "(C_Ok %s)" % ex._konst("%d_usize" % len(loc))
    m_get_range_len.wants_env = True

    def m_get_fingerprint(ex, v, env):
        x, y = range_parts(ex, env, v[1])
        return "(C_Ok (fp_of (C_range %s %s)))" % (x, y)
    m_get_fingerprint.wants_env = True

    def m_fp_eq(ex, v, env):
        a, b = _deep(ex, env, v[0]), _deep(ex, env, v[1])
        c = "(fpeq %s %s)" % (a, b)
        return [(c, "(b2v true)"), ("(not %s)" % c, "(b2v false)")]
    m_fp_eq.wants_env = True

    def m_branch(ex, v):
        x = v[0]
        if x.startswith("(C_Ok ") or x.startswith("(C_Some "):
            return "(C_Continue %s)" % split_sexpr_args(x)[0]
        if x.startswith("(C_Err "):
            return "(C_Break %s)" % x
        if x == "C_None":
            return "(C_Break C_None)"
        raise Inconclusive("branch of %s" % x[:60])

    # ---- sequences
    def m_new(ex, v, env):
        return ex.new_seq(env, [])
    m_new.wants_env = True

    def m_push(ex, v, env):
        sid = ex.seq_of(env, v[0], "Vec")
        items, pos = env["__seq"][sid]
        env["__seq"] = dict(env["__seq"], **{sid: (items + (v[1],), pos)})
        return "UNIT"
    m_push.wants_env = True

    def m_into_iter(ex, v, env):
        t = _deep(ex, env, v[0])
        if t.startswith("(C_seq ") or t.startswith("(C_lazy "):
            return t
        if t.startswith("(mk_std__ops__Range"):
            a, b = split_sexpr_args(t)
            ma, mb = re.match(r"^k_(\d+)_usize$", a), re.match(r"^k_(\d+)_usize$", b)
            if not (ma and mb):
                raise Inconclusive("integer range with symbolic bounds")
            return ex.new_seq(env, [ex._konst("%d_usize" % i) for i in range(int(ma.group(1)), int(mb.group(1)))])
        raise Inconclusive("into_iter of %s" % t[:60])
    m_into_iter.wants_env = True

    def seq_next(ex, env, t):
        sid = ex.seq_of(env, t, "iterator")
        items, pos = env["__seq"][sid]
        if pos >= len(items):
            return None
        env["__seq"] = dict(env["__seq"], **{sid: (items, pos + 1)})
        return items[pos]

    def m_next(ex, v, env):
        it = seq_next(ex, env, v[0])
        return "C_None" if it is None else "(C_Some %s)" % it
    m_next.wants_env = True

    def m_nth(ex, v, env):
        mo = re.match(r"^k_(\d+)_usize$", v[1])
        if not mo:
            raise Inconclusive("nth with a symbolic index")
        it = None
        for _ in range(int(mo.group(1)) + 1):
            it = seq_next(ex, env, v[0])
            if it is None:
                return "C_None"
        return "(C_Some %s)" % it
    m_nth.wants_env = True

    def m_is_empty(ex, v, env):
        return "(b2v %s)" % ("true" if not ex.seq_items(env, v[0]) else "false")
    m_is_empty.wants_env = True

    def m_len(ex, v, env):
        return ex._konst("%d_usize" % len(ex.seq_items(env, v[0])))
    m_len.wants_env = True

    # ---- closures run from their own MIR inside a model
    def run_closure(ex, env, fval, args, mode):
        """-> [(conds, ret)] ; env side effects of the closure (sequences) are kept in env"""
        f = fval
        for _ in range(4):
            if f.startswith("(ref "):
                f = mk_deref(f)
            elif is_addr(f):
                f = ex.load(env, f)
            else:
                break
        head = f.lstrip("(").split(" ")[0].rstrip(")")
        src = ex.closure_src.get(head)
        if src is None:
            for s in ex._closures():
                if "k_" + sanitize("ZeroSized: " + s)[:80] == head:
                    src = s
                    break
        if src is None:
            raise Inconclusive("closure value not recognised: %s" % f[:80])
        body, byref = ex.closure_body(src)
        sub_env = {k: v2 for k, v2 in env.items() if k.startswith("__")}
        a1 = ("(ref %s)" % f) if byref else f
        for i, v2 in enumerate([a1] + list(args)):
            sub_env["_%d" % (i + 1)] = v2
        sub = []
        ex.inlined.add(body.name)
        ex._walk(body, "bb0", sub_env, [], [], sub, 1)
        out = []
        for pc2, ret2, calls2, env2 in sub:
            if ret2 == "PANIC":
                env["__panic"] = env.get("__panic", ()) + env2.get("__panic", ())
                continue
            for k2 in ("__seq", "__cmps", "__asserts", "__cscalls"):
                if k2 in env2:
                    if k2 == "__seq":
                        env[k2] = dict(env.get(k2, {}), **env2[k2])
                    else:
                        old = env.get(k2, ())
                        env[k2] = old + tuple(x for x in env2[k2] if x not in old)
            out.append((list(pc2), ret2))
        return out

    def m_filter_map(kind):
        def f(ex, v, env):
            return "(C_lazy %s %s %s)" % (ex._konst("lazy_" + kind), v[0], v[1])
        f.wants_env = True
        return f

    def force(ex, env, t):
        """-> [(conds, [items])] : the items a (possibly lazy) iterator yields"""
        t = _deep(ex, env, t)
        if t.startswith("(C_seq "):
            return [([], ex.seq_items(env, t))]
        if t.startswith("(C_lazy "):
            kind, inner, clo = split_sexpr_args(t)
            outs = []
            for conds0, items in force(ex, env, inner):
                acc = [(list(conds0), [])]
                for it in items:
                    nxt = []
                    rs = run_closure(ex, env, clo, [it], kind)
                    for conds, lst in acc:
                        for c2, r in rs:
                            if kind.endswith("filter_map"):
                                if r == "C_None":
                                    nxt.append((conds + c2, lst))
                                elif r.startswith("(C_Some "):
                                    nxt.append((conds + c2, lst + [split_sexpr_args(r)[0]]))
                                else:
                                    raise Inconclusive("filter_map closure returned %s" % r[:60])
                            else:
                                nxt.append((conds + c2, lst + [r]))
                    acc = nxt
                    if len(acc) > 64:
                        raise Inconclusive("too many forks while forcing an iterator")
                outs += acc
            return outs
        raise Inconclusive("iterator not understood: %s" % t[:80])

    def m_collect_result_vec(ex, v, env):
        outs = []
        for conds, items in force(ex, env, v[0]):
            if any(not i.startswith("(C_Ok ") for i in items):
                raise Inconclusive("collect over a storage error")
            outs.append(("(and true %s)" % " ".join(conds) if conds else "true", "(C_Ok %s)" % ex.new_seq(env, [split_sexpr_args(i)[0] for i in items])))
        return outs
    m_collect_result_vec.wants_env = True

    def m_collect_vec(ex, v, env):
        outs = []
        for conds, items in force(ex, env, v[0]):
            outs.append(("(and true %s)" % " ".join(conds) if conds else "true", ex.new_seq(env, items)))
        return outs
    m_collect_vec.wants_env = True

    def m_from_iter(ex, v, env):
        outs = []
        for conds, items in force(ex, env, v[0]):
            outs.append(("(and true %s)" % " ".join(conds) if conds else "true", ex.new_seq(env, items)))
        return outs
    m_from_iter.wants_env = True

    def m_poll(ex, v, env):
        fut = _deep(ex, env, v[0])
        if fut.startswith("(C_collectfut "):
            items = ex.seq_items(env, split_sexpr_args(fut)[0])
            res = []
            for co in items:
                # run the async block to completion (its only await is the content-status callback, answered Ready)
                head = co.lstrip("(").split(" ")[0].rstrip(")")
                src = ex.closure_src.get(head)
                if src is None:
                    raise Inconclusive("future in a FuturesOrdered is not an async block of this function: %s" % co[:60])
                hits = [b for name, bs in ex.bodies.items() for b in bs if re.search(r"^_1: Pin<&mut \{async block@%s\}>" % re.escape(src.split("@", 1)[1].rstrip("}").split(" (#")[0]), b.args)]
                if len(hits) != 1:
                    raise Inconclusive("async block body for %s not found uniquely (%d)" % (src, len(hits)))
                ex.smt.fun("CO", 1)
                ex.nseq += 1
                cell = "(CO %s)" % ex._konst("int_%d" % (200000 + ex.nseq))
                sub_env = {k: v2 for k, v2 in env.items() if k.startswith("__")}
                heap = dict(sub_env.get("__heap", {}))
                for i, part in enumerate(split_sexpr_args(co)):
                    heap[(cell, str(i))] = part
                sub_env["__heap"] = heap
                sub_env["_1"] = "(C_pin %s)" % cell        # `cell` is the pointer to the async block's state
                sub_env["_2"] = "CX"
                ex.discr_of["(deref %s)" % cell] = 0
                sub = []
                ex.inlined.add(hits[0].name)
                ex._walk(hits[0], "bb0", sub_env, [], [], sub, 1)
                good = [s for s in sub if s[1] != "PANIC"]
                if len(good) != 1 or good[0][0] or not good[0][1].startswith("(CE_Poll_Ready "):
                    raise Inconclusive("async block did not complete on a single path: %s" % [s[1][:40] for s in sub])
                env["__cscalls"] = good[0][3].get("__cscalls", env.get("__cscalls", ()))
                res.append(split_sexpr_args(good[0][1])[0])
            return "(CE_Poll_Ready %s)" % ex.new_seq(env, res)
        if fut.startswith("(C_csfut "):
            cb, e = split_sexpr_args(fut)
            return "(CE_Poll_Ready (cs %s))" % e
        raise Inconclusive("poll of an unknown future %s" % fut[:60])
    m_poll.wants_env = True

    def m_cs_call(ex, v, env):
        a = split_sexpr_args(v[1]) if v[1].startswith("(C_tuple") else [v[1]]
        e = _deep(ex, env, a[0])
        env["__cscalls"] = env.get("__cscalls", ()) + (e,)
        return "(C_csfut %s %s)" % (_deep(ex, env, v[0]), e)
    m_cs_call.wants_env = True

    def m_result_map(ex, v, env):
        x = v[0]
        if x.startswith("(C_Err "):
            return x
        if not x.startswith("(C_Ok "):
            raise Inconclusive("Result::map of %s" % x[:60])
        rs = run_closure(ex, env, v[1], [split_sexpr_args(x)[0]], "map")
        return [("(and true %s)" % " ".join(c) if c else "true", "(C_Ok %s)" % r) for c, r in rs]
    m_result_map.wants_env = True

    def m_and_then(ex, v, env):
        x = v[0]
        if x.startswith("(C_Err "):
            return x
        if not x.startswith("(C_Ok "):
            raise Inconclusive("Result::and_then of %s" % x[:60])
        rs = run_closure(ex, env, v[1], [split_sexpr_args(x)[0]], "and_then")
        if not rs:
            # the closure panicked on every path
            return [("true", "PANICVAL")]
        return [("(and true %s)" % " ".join(c) if c else "true", r) for c, r in rs]
    m_and_then.wants_env = True

    def m_expect(ex, v, env):
        if v[0].startswith("(C_Some "):
            return split_sexpr_args(v[0])[0]
        if v[0] == "C_None":
            env["__panic"] = env.get("__panic", ()) + ("expect(\"missing entry\") on None: the pivot index lies outside the range's entries",)
            return "(C_Err PUTERR)"
        raise Inconclusive("expect of %s" % v[0][:60])
    m_expect.wants_env = True

    def m_any(ex, v, env):
        """slice::Iter::any(closure): left to right, stops at the first true"""
        items = ex.seq_items(env, v[0])
        acc = [([], False)]
        for it in items:
            nxt = []
            for conds, done in acc:
                if done:
                    nxt.append((conds, True))
                    continue
                for c2, r in run_closure(ex, env, v[1], ["(ref %s)" % it], "any"):
                    b = mk_v2b(r)
                    if b == "true":
                        nxt.append((conds + c2, True))
                    elif b == "false":
                        nxt.append((conds + c2, False))
                    else:
                        nxt.append((conds + c2 + [b], True))
                        nxt.append((conds + c2 + [ex._neg(b)], False))
            acc = nxt
        return [("(and true %s)" % " ".join(c) if c else "true", "(b2v %s)" % ("true" if d else "false")) for c, d in acc]
    m_any.wants_env = True

    # ---- the callbacks of the item loop
    def idx_of_received(e):
        for i, (r, s) in enumerate(received or []):
            if e == r or e == "(clone_of %s)" % r:
                return i
        raise Inconclusive("callback on an entry that is not a received value: %s" % e[:60])

    def m_validate(ex, v, env):
        a = split_sexpr_args(v[1]) if v[1].startswith("(C_tuple") else [v[1]]
        e = _deep(ex, env, a[1])
        i = idx_of_received(e)
        env["__events"] = env.get("__events", ()) + (("validate", i, a[2] if len(a) > 2 else None, len(env.get("__outparts_snapshot", ()))),)
        return [("valid_%d" % i, "(b2v true)"), ("(not valid_%d)" % i, "(b2v false)")]
    m_validate.wants_env = True

    def m_put(ex, v, env):
        e = _deep(ex, env, v[1])
        i = idx_of_received(e)
        env["__events"] = env.get("__events", ()) + (("put", i, None, len(env.get("__getranges", ()))),)
        ex.smt.fun("CE_InsertOutcome_Inserted", 1)
        ex.smt.fun("CE_InsertOutcome_NotInserted", 0)
        return [("inserted_%d" % i, "(C_Ok (CE_InsertOutcome_Inserted UNIT))"), ("(not inserted_%d)" % i, "(C_Ok CE_InsertOutcome_NotInserted)")]
    m_put.wants_env = True

    def m_on_insert(ex, v, env):
        a = split_sexpr_args(v[1]) if v[1].startswith("(C_tuple") else [v[1]]
        e = _deep(ex, env, a[1])
        i = idx_of_received(e)
        env["__events"] = env.get("__events", ()) + (("on_insert", i, a[2] if len(a) > 2 else None, None),)
        ex.smt.fun("C_insfut", 1)
        return "(C_insfut %s)" % e
    m_on_insert.wants_env = True

    def m_poll_any(ex, v, env):
        fut = _deep(ex, env, v[0])
        if fut.startswith("(C_insfut "):
            return "(CE_Poll_Ready UNIT)"
        return m_poll(ex, v, env)
    m_poll_any.wants_env = True

    models = {
        r"^<Self as ranger::Store<E>>::get_range$": m_get_range,
        r"^<Self as ranger::Store<E>>::get_range_len$": m_get_range_len,
        r"^<Self as ranger::Store<E>>::get_fingerprint$": m_get_fingerprint,
        r"^<Self as ranger::Store<E>>::put$": m_put,
        r"^<Fingerprint as PartialEq>::eq$": m_fp_eq,
        r"^Fingerprint::empty$": lambda ex, v: "FPEMPTY",
        r" as Try>::branch$": m_branch,
        r" as FromResidual<.*>>::from_residual$": lambda ex, v: v[0] if v[0].startswith("(C_Err") else "(C_Err %s)" % v[0],
        r"^Vec::<.*>::new$|^Vec::<.*>::with_capacity$": m_new,
        r"^Vec::<.*>::push$": m_push,
        r"^Vec::<.*>::is_empty$": m_is_empty,
        r"^Vec::<.*>::len$": m_len,
        r" as IntoIterator>::into_iter$": m_into_iter,
        r"^<std::vec::IntoIter<.*> as Iterator>::next$|^<<Self as ranger::Store<E>>::RangeIterator<'_> as Iterator>::next$|^<std::ops::Range<usize> as Iterator>::next$": m_next,
        r"RangeIterator<'_> as Iterator>::nth$": m_nth,
        r" as Iterator>::filter_map::<": m_filter_map("filter_map"),
        r" as Iterator>::map::<": m_filter_map("map"),
        r" as Iterator>::collect::<Result<Vec<E>, ": m_collect_result_vec,
        r" as Iterator>::collect::<Vec<Result<E, ": m_collect_vec,
        r"^<FuturesOrdered<.*> as FromIterator<.*>>::from_iter::<": m_from_iter,
        r"^<FuturesOrdered<.*> as n0_future::StreamExt>::collect::<Vec<\(E, sync::ContentStatus\)>>$": lambda ex, v: "(C_collectfut %s)" % v[0],
        r" as IntoFuture>::into_future$": lambda ex, v: v[0],
        r"^Pin::<&mut .*>::new_unchecked$": lambda ex, v: v[0],
        r" as Future>::poll$": m_poll_any,
        r"^<F3 as AsyncFn<\(&E,\)>>::async_call$": m_cs_call,
        r"^<F as Fn<\(&Self, &E, sync::ContentStatus\)>>::call$": m_validate,
        r"^<F2 as AsyncFnMut<\(&Self, E, sync::ContentStatus\)>>::async_call_mut$": m_on_insert,
        r"^Result::<.*>::map::<": m_result_map,
        r"^Result::<.*>::and_then::<": m_and_then,
        r"^(std::option::)?Option::<.*>::expect$": m_expect,
        r"^<std::slice::Iter<'_, \(E, sync::ContentStatus\)> as Iterator>::any::<": m_any,
        r"^<Vec<\(E, sync::ContentStatus\)> as Deref>::deref$": lambda ex, v: v[0],
        r"^core::slice::<impl \[\(E, sync::ContentStatus\)\]>::iter$": lambda ex, v: v[0],
        r"^<E as RangeEntry>::key$": None,
        r"^<E as RangeEntry>::value$": None,
        r"^<<E as RangeEntry>::Key as Clone>::clone$": None,
        r"^<E as Clone>::clone$": None,
        r"^<ranger::Range<<E as RangeEntry>::Key> as Clone>::clone$": None,   # filled below (needs env)
        r"^<&<E as RangeEntry>::Key as PartialOrd>::ge$": m_key_cmp("ge"),
        r"^<&<E as RangeEntry>::Key as PartialEq>::eq$|^<<E as RangeEntry>::Key as PartialEq>::eq$|^<&K as PartialEq>::eq$|^<K as PartialEq>::eq$": m_key_cmp("eq"),
        r"^<<E as RangeEntry>::Key as PartialEq>::ne$": m_key_cmp("ne"),
        r"^<&<E as RangeEntry>::Value as PartialOrd>::ge$": m_val_ge,
    }

    def m_range_clone(ex, v, env):
        return _deep(ex, env, v[0])
    m_range_clone.wants_env = True
    models[r"^<ranger::Range<<E as RangeEntry>::Key> as Clone>::clone$"] = m_range_clone
    models[r"^<<E as RangeEntry>::Key as Clone>::clone$"] = m_range_clone

    def m_acc(fn):
        def f(ex, v, env):
            return "(ref (%s %s))" % (fn, _strip_clone(_deep(ex, env, v[0])))
        f.wants_env = True
        return f
    def m_entry_clone(ex, v, env):
        return "(clone_of %s)" % _deep(ex, env, v[0])
    m_entry_clone.wants_env = True
    models[r"^<E as Clone>::clone$"] = m_entry_clone
    models[r"^<E as RangeEntry>::key$"] = m_acc("key_of")
    models[r"^<E as RangeEntry>::value$"] = m_acc("val_of")
    st["local_in"] = local_in
    return models


def _strip_clone(t):
    t = t.strip()
    while t.startswith("(clone_of ") and t.endswith(")"):
        t = t[len("(clone_of "):-1]
    return t


INLINE = [(r"^ranger::Range::<<E as RangeEntry>::Key>::(x|y|is_all)$", None, None)]


def _inline_rules(bodies):
    rules = []
    for fn in ("x", "y", "is_all"):
        hits = [n for n in bodies if re.search(r"^ranger::<impl at [^>]*>::%s$" % fn, n)]
        # `Range<K>::x/y/is_all` are the only functions of these names in ranger.rs impl blocks taking &Range<K>
        cands = [(n, b) for n in hits for b in bodies[n] if re.search(r"^_1: &ranger::Range<K>", b.args)]
        if len(cands) != 1:
            raise Inconclusive("Range::%s body not found uniquely (%d)" % (fn, len(cands)))
        rules.append((r"^ranger::Range::<(<E as RangeEntry>::Key|K)>::%s$" % fn, "^" + re.escape(cands[0][0]) + "$", r"^_1: &ranger::Range<K>"))
    return rules


def _layouts():
    src = _src("src/ranger.rs")
    cfg = _struct_fields(src, "SyncConfig")
    rng = _struct_fields(src, r"Range<K>")
    rfp = _struct_fields(src, r"RangeFingerprint<K>")
    rit = _struct_fields(src, r"RangeItem<E: RangeEntry>")
    msg = _struct_fields(src, r"Message<E: RangeEntry>")
    mp = re.search(r"enum MessagePart<E: RangeEntry> \{(.*?)\n\}", src, re.S)
    mpv = re.findall(r"^\s{4}(\w+)\(", mp.group(1), re.M) if mp else []
    return cfg, rng, rfp, rit, msg, mpv


def _run_case(bodies, body, case, SF, parts, received, up, layouts, K):
    """-> (smt, ex, paths)"""
    cfg, rng, rfp, rit, msg, mpv = layouts
    smt = Smt()
    _setup(smt, K, len(received or []))
    st = {}
    models = _models(smt, case, SF, st, received)
    ex = PMExec(bodies, smt, models=models, inline=_inline_rules(bodies), enums={"MessagePart": mpv, "Poll": ["Ready", "Pending"], "InsertOutcome": ["NotInserted", "Inserted"]},
                max_paths=4000, max_depth=20000)
    ex.discr_of["(deref CORO)"] = 0
    env0 = {"_1": "(C_pin CORO)", "_2": "CX"}
    sfk = ex._konst("%d_usize" % SF)
    cfgv = [None, None]
    cfgv[cfg.index("max_set_size")] = "MAXSET"
    cfgv[cfg.index("split_factor")] = sfk
    ex.smt.fun("mk_cfg", 2)
    heap0 = {("CORO", up["self"]): "(ref STORE)", ("CORO", up["config"]): "(ref (mk_cfg %s %s))" % tuple(cfgv), ("CORO", up["validate_cb"]): "VALCB",
             ("CORO", up["on_insert_cb"]): "INSCB", ("CORO", up["content_status_cb"]): "CSCB"}
    env0["__heap"] = heap0
    # the message: Message { parts: Vec<MessagePart> }
    partseq = ex.new_seq(env0, parts(ex, env0))
    ex.smt.fun("mk_msg", 1)
    heap0[("CORO", up["message"])] = "(mk_msg %s)" % partseq
    res = []
    ex._walk(body, "bb0", env0, [], [], res, 0)
    st["ex"] = ex
    return smt, ex, res, st


def _reply_parts(ex, env, ret):
    """decode the coroutine's return value -> None | list of part terms"""
    if not ret.startswith("(CE_Poll_Ready "):
        raise Inconclusive("the coroutine did not finish: %s" % ret[:60])
    r = split_sexpr_args(ret)[0]
    if not r.startswith("(C_Ok "):
        return ("err", r)
    o = split_sexpr_args(r)[0]
    if o == "C_None":
        return None
    if not o.startswith("(C_Some "):
        raise Inconclusive("result %s" % o[:60])
    m = split_sexpr_args(o)[0]
    if not m.startswith("(mk_ranger__Message"):
        raise Inconclusive("message %s" % m[:60])
    return ex.seq_items(env, split_sexpr_args(m)[0])


def _decode_part(ex, env, p, layouts):
    cfg, rng, rfp, rit, msg, mpv = layouts
    if p.startswith("(CE_MessagePart_RangeFingerprint "):
        f = split_sexpr_args(split_sexpr_args(p)[0])
        r = f[rfp.index("range")]
        x, y = split_sexpr_args(r)
        if rng != ["x", "y"]:
            raise Inconclusive("Range layout")
        return dict(kind="fp", x=_deep(ex, env, x), y=_deep(ex, env, y), fp=f[rfp.index("fingerprint")])
    if p.startswith("(CE_MessagePart_RangeItem "):
        f = split_sexpr_args(split_sexpr_args(p)[0])
        r = f[rit.index("range")]
        x, y = split_sexpr_args(r)
        return dict(kind="item", x=_deep(ex, env, x), y=_deep(ex, env, y), values=ex.seq_items(env, f[rit.index("values")]), have_local=f[rit.index("have_local")])
    raise Inconclusive("reply part %s" % p[:60])


def _mk_range(x, y):
    return "(mk_ranger__Range___E_as_ranger__RangeEntry___Key_ %s %s)" % (x, y)


def _prepare(bodies):
    hits = _find(bodies, r"^ranger::Store::process_message::\{closure#0\}$")
    layouts = _layouts()
    cfg, rng, rfp, rit, msg, mpv = layouts
    if len(hits) != 1 or cfg is None or sorted(cfg) != ["max_set_size", "split_factor"] or rng != ["x", "y"] or rfp != ["range", "fingerprint"] or rit != ["range", "values", "have_local"] or msg != ["parts"] or mpv != ["RangeFingerprint", "RangeItem"]:
        raise Inconclusive("process_message coroutine / message layouts not found as expected (%d, %s %s %s %s %s %s)" % (len(hits), cfg, rng, rfp, rit, msg, mpv))
    body = hits[0]
    up = {}
    for var, expr in body.debug.items():
        mm = re.match(r"^\(\(\*_\d+\)\.(\d+): ", expr)
        if mm:
            up[var] = mm.group(1)
    need = ("self", "config", "message", "validate_cb", "on_insert_cb", "content_status_cb")
    if any(v not in up for v in need):
        raise Inconclusive("coroutine upvars not recognised: %s" % up)
    return body, up, layouts


def _range_term_name(ex):
    return None


def _cases_xy(K):
    for sx in range(2 * K + 1):
        for sy in range(2 * K + 1):
            if sx == sy:
                # the same position: one key (x = y, the whole set); in a gap also two distinct keys x < y (no stored key inside) and
                # x > y (every stored key inside)
                for tie in ((-1, 0, 1) if sx % 2 == 0 else (0,)):
                    yield sx, sy, tie
            else:
                yield sx, sy, None


class Asker:
    """two-phase solver access: phase 0 collects the goals (answering with the expected verdict), `flush` decides all of them
    with one z3 and one cvc5 process, phase 1 re-runs the analysis on the real verdicts (goals not seen before are decided
    one by one)"""

    def __init__(self, smt):
        self.smt, self.cache, self.pending, self.collecting = smt, {}, [], True

    def ask(self, goal, default):
        if goal in self.cache:
            return self.cache[goal]
        if self.collecting:
            self.pending.append(goal)
            return default
        v, _ = solve(self.smt.script(goal))
        self.cache[goal] = v
        return v

    def flush(self):
        goals = list(dict.fromkeys(self.pending))
        for g, v in zip(goals, solve_batch(self.smt, goals)):
            self.cache[g] = v
        self.pending, self.collecting = [], False

    def asked(self):
        return 2 * len(self.cache)      # every goal goes to both solvers


def _verdict(problems):
    if any(p[1] != "inconclusive" for p in problems):
        return "violated"
    return "inconclusive" if problems else "holds"


def q_pm_fingerprint_reply(bodies):
    name = "pm_fingerprint_reply"
    try:
        body, up, layouts = _prepare(bodies)
    except Inconclusive as e:
        return dict(name=name, property="C01", verdict="inconclusive", detail=str(e), functions=[])
    KS = (0, 1, 2, 3, 4) if THOROUGH else (0, 1, 2, 3)
    SFS = (2, 3, 4) if THOROUGH else (2, 3)
    problems, nq, ncases, npaths, funcs = [], 0, 0, 0, set()
    seen_kinds = set()
    notes, exact = set(), {}
    for K in KS:
        for SF in SFS:
            for sx, sy, tie in _cases_xy(K):
                yterm = "Y"
                if tie == 0:
                    # x = y: one key
                    case = Case(K, {"X": sx})
                    yterm = "X"
                elif tie is not None:
                    case = Case(K, {"X": sx, "Y": sy}, {("X", "Y"): tie, ("Y", "X"): -tie})
                else:
                    case = Case(K, {"X": sx, "Y": sy})
                tag0 = "K=%d split_factor=%d x@%d y@%d%s" % (K, SF, sx, sy, "" if tie is None else " tie=%d" % tie)

                def parts(ex, env, yterm=yterm):
                    ex.smt.fun("mk_rfp", 2)
                    return ["(CE_MessagePart_RangeFingerprint (mk_rfp (C_range X %s) FPIN))" % yterm]
                try:
                    smt, ex, res, st = _run_case(bodies, body, case, SF, parts, None, up, layouts, K)
                except (Inconclusive, ValueError, AssertionError, KeyError, IndexError, RecursionError) as e:
                    problems.append(("process_message can be followed on every case", "inconclusive", tag0 + ": %r" % (e,)))
                    if len([p for p in problems if p[1] == "inconclusive"]) > 5:
                        return dict(name=name, property="C01", verdict="inconclusive", detail=str(problems[:3]), functions=[body.name])
                    continue
                ncases += 1
                funcs |= ex.inlined
                ctx = case.ctx()
                xs, ys = "(pos X)", "(pos %s)" % yterm
                local = ["E%d" % i for i in range(K) if case.in_range("X", yterm, i)]
                n = len(local)
                asker = Asker(smt)
                for phase in (0, 1):
                    snap = (list(problems), set(notes), dict(exact), set(seen_kinds), npaths)
                    for pc, ret, calls, env in res:
                        npaths += 1
                        tag = tag0 + " path=%s" % [c for c in pc if "fpeq" in c or "toint" in c][:4]
                        pcs = "(and true %s %s)" % (" ".join(pc), " ".join(ctx))
                        v = asker.ask(pcs, "sat")
                        if v == "unsat":
                            continue
                        if v != "sat":
                            problems.append(("path feasibility", "inconclusive", tag))
                            continue
                        # every key comparison taken concretely is implied by the order type
                        cm = env.get("__cmps", ())
                        if cm:
                            v = asker.ask("(and %s (not (and true %s)))" % (pcs, " ".join(cm)), "unsat")
                            if v != "unsat":
                                problems.append(("internal: the order type decides every key comparison on the path", "inconclusive", tag))
                                continue
                        if ret == "PANIC" or env.get("__panic"):
                            problems.append(("answering a fingerprint part never panics (pivot index inside the range, no division by zero, no overflow)", "sat", tag + " " + str(env.get("__panic"))[:160]))
                            continue
                        for cond, msg_ in env.get("__asserts", ()):
                            v = asker.ask("(and %s (not %s))" % (pcs, cond), "unsat")
                            if v != "unsat":
                                problems.append(("answering a fingerprint part never panics (pivot index inside the range, no division by zero, no overflow)", v, tag + " assert: " + msg_))
                        try:
                            rp = _reply_parts(ex, env, ret)
                            if isinstance(rp, tuple):
                                problems.append(("the model store never fails, so process_message succeeds", "sat", tag + " ret=%s" % rp[1][:60]))
                                continue
                            dec = [_decode_part(ex, env, p, layouts) for p in (rp or [])]
                        except Inconclusive as e:
                            problems.append(("the reply can be decoded", "inconclusive", tag + ": %s" % e))
                            continue
                        eq1 = "(fpeq (fp_of (C_range X %s)) FPIN)" % yterm
                        eq1b = "(fpeq FPIN (fp_of (C_range X %s)))" % yterm
                        is_eq = eq1 in pc or eq1b in pc
                        is_ne = ("(not %s)" % eq1) in pc or ("(not %s)" % eq1b) in pc
                        if not (is_eq or is_ne):
                            problems.append(("the received fingerprint is compared with get_fingerprint of the received range", "sat", tag + " pc=%s" % pc[:3]))
                            continue
                        if is_eq:
                            seen_kinds.add("equal")
                            if rp is not None:
                                problems.append(("a part whose fingerprint equals the local one is not answered", "sat", tag))
                            continue
                        remote_empty = any(re.match(r"^\(fpeq (FPIN FPEMPTY|FPEMPTY FPIN)\)$", c) for c in pc)
                        if n <= 1 or remote_empty:
                            seen_kinds.add("anchor")
                            want = [(e, "(cs %s)" % e) for e in local]
                            ok = len(dec) == 1 and dec[0]["kind"] == "item" and dec[0]["x"] == "X" and dec[0]["y"] == yterm and mk_v2b(dec[0]["have_local"]) == "false" \
                                and [tuple(split_sexpr_args(t)) for t in dec[0]["values"]] == want
                            if not ok:
                                problems.append(("recursion anchor (fewer than two local entries, or the peer's set is empty): the reply is one item part for the same range holding exactly the local entries of the range in key order with their content status, have_local = false",
                                                 "sat", tag + " reply=%s" % str(dec)[:200]))
                            continue
                        seen_kinds.add("split")
                        if not dec:
                            problems.append(("a part whose fingerprint differs is answered", "sat", tag))
                            continue
                        # per reply part: what it holds, and whether it makes progress (strictly fewer local entries than the received range)
                        bad = None
                        prog = []
                        for d in dec:
                            try:
                                loc, _xy = st["local_in"](ex, env, "(C_range %s %s)" % (d["x"], d["y"]))
                            except Inconclusive as e:
                                bad = ("internal: reply range understood", "inconclusive", tag + ": %s" % e)
                                break
                            d["n"] = len(loc)
                            if len(loc) < n:
                                prog.append(d)
                            small = "(<= %d (toint MAXSET))" % len(loc)
                            if d["kind"] == "item":
                                want = [(e, "(cs %s)" % e) for e in loc]
                                if [tuple(split_sexpr_args(t)) for t in d["values"]] != want or mk_v2b(d["have_local"]) != "false":
                                    bad = ("recursion: an item part carries exactly the local entries of its range, in key order, with their content status, and asks for the peer's (have_local = false)", "sat", tag + " part=%s" % str(d)[:160])
                                    break
                                v = asker.ask("(and %s (not %s))" % (pcs, small), "unsat")
                                if v != "unsat":
                                    notes.add("a sub-range holding more than max_set_size entries was sent as items")
                            else:
                                if d["fp"] != "(fp_of (C_range %s %s))" % (d["x"], d["y"]):
                                    bad = ("recursion: a fingerprint part carries get_fingerprint of exactly its own range", "sat", tag + " part=%s" % str(d)[:160])
                                    break
                                v = asker.ask("(and %s %s)" % (pcs, small), "unsat")
                                if v != "unsat":
                                    notes.add("a sub-range holding at most max_set_size entries was sent as a fingerprint")
                        if bad:
                            problems.append(bad)
                            continue
                        # coverage by progressing parts, for an arbitrary key P of the received range
                        inr = _range_formula(xs, ys, "P")
                        cov = "(or false %s)" % " ".join(_range_formula("(pos %s)" % d["x"], "(pos %s)" % d["y"], "P") for d in prog)
                        v = asker.ask("(and %s %s (not %s))" % (pcs, inr, cov), "unsat")
                        if v != "unsat":
                            problems.append(("recursion: every key of the received range lies in a reply range that holds strictly fewer local entries than the received range (nothing is left out, and the recursion makes progress)", v,
                                             tag + " ranges=%s" % [(d["x"], d["y"], d["n"]) for d in dec]))
                            continue
                        # exact partition (each key of the range in exactly one reply range, keys outside in none): recorded, not required —
                        # redundant or overlapping reply ranges cost traffic but cannot keep the replicas apart
                        ins = [_range_formula("(pos %s)" % d["x"], "(pos %s)" % d["y"], "P") for d in dec]
                        cnt = "(+ 0 %s)" % " ".join("(ite %s 1 0)" % f for f in ins)
                        v = asker.ask("(and %s (not (= %s (ite %s 1 0))))" % (pcs, cnt, inr), "unsat")
                        exact[(SF, v == "unsat")] = exact.get((SF, v == "unsat"), 0) + 1
                        if v != "unsat" and len(prog) < len(dec):
                            notes.add("split_factor %d with %d local entries: the first reply range degenerates to (x, x) = the whole set" % (SF, n))
                        bad = None
                        if bad:
                            problems.append(bad)
                    if phase == 0:
                        problems[:] = snap[0]
                        notes.clear()
                        notes.update(snap[1])
                        exact.clear()
                        exact.update(snap[2])
                        seen_kinds.clear()
                        seen_kinds.update(snap[3])
                        npaths = snap[-1]
                        asker.flush()
                nq += asker.asked()
    if not {"equal", "anchor", "split"} <= seen_kinds:
        problems.append(("all three answers (silence, recursion anchor, split) occur in the explored cases", "inconclusive", str(seen_kinds)))
    problems.sort(key=lambda p: p[1] == "inconclusive")
    global LAST_PROBLEMS
    LAST_PROBLEMS = problems
    return dict(name=name, property="C01", verdict=_verdict(problems),
                detail="order types=%d, feasible paths=%d; exact partition (not required): %s; notes: %s; problems: %s" % (
                    ncases, npaths, {"split_factor=%d %s" % (k[0], "exact" if k[1] else "overlapping"): v for k, v in sorted(exact.items())}, sorted(notes) or "none",
                    [(p[0][:90], p[1], p[2][:200]) for p in problems[:4]] or "none"),
                functions=sorted(funcs) + ["generic store modelled as the reference ordered map (get_range / get_range_len / get_fingerprint); Vec, iterators, FuturesOrdered modelled as sequences"],
                queries=nq, cases=ncases, witness="c01reply,c01session",
                check_message=(problems[0][0] if problems else "fingerprint parts are answered by silence, the anchor or a partition"))


def q_pm_item_reply(bodies):
    name = "pm_item_reply"
    try:
        body, up, layouts = _prepare(bodies)
    except Inconclusive as e:
        return dict(name=name, property="C01", verdict="inconclusive", detail=str(e), functions=[])
    KS = (0, 1, 2, 3) if THOROUGH else (0, 1, 2)
    problems, nq, ncases, npaths, funcs = [], 0, 0, 0, set()
    seen = set()
    for K in KS:
        slots = list(range(2 * K + 1))
        for sx, sy, tie in _cases_xy(K):
            if tie not in (None, 0):
                continue          # two distinct foreign bounds in one gap: covered by the fingerprint query (get_range only)
            for M in (0, 1, 2):
                for rs in itertools.product(slots, repeat=M):
                    if M == 2 and not THOROUGH and (sx, sy) not in ((0, 0), (1, 2 * K), (2 * K, 1)):
                        continue       # quick tier: two received values against the whole set, a regular and a wrap-around range
                    for have_local in (False, True):
                        if have_local and (sx, sy) not in ((0, 0), (1, 2 * K)):
                            continue   # with have_local the range is not looked at: two representatives
                        place = {"X": sx}
                        yterm = "X"
                        if tie is None:
                            place["Y"] = sy
                            yterm = "Y"
                        for i, sl in enumerate(rs):
                            place["(key_of R%d)" % i] = sl
                        case = Case(K, place)
                        received = [("R%d" % i, "S%d" % i) for i in range(M)]
                        tag0 = "K=%d x@%d y@%d received keys@%s have_local=%s" % (K, sx, sy, list(rs), have_local)

                        def parts(ex, env, yterm=yterm, received=received, have_local=have_local):
                            ex.smt.fun("mk_rit", 3)
                            vals = ex.new_seq(env, ["(C_tuple2 %s %s)" % rs_ for rs_ in received])
                            return ["(CE_MessagePart_RangeItem (mk_rit (C_range X %s) %s (b2v %s)))" % (yterm, vals, "true" if have_local else "false")]
                        try:
                            smt, ex, res, st = _run_case(bodies, body, case, 2, parts, received, up, layouts, K)
                        except (Inconclusive, ValueError, AssertionError, KeyError, IndexError, RecursionError) as e:
                            problems.append(("process_message can be followed on every case", "inconclusive", tag0 + ": %r" % (e,)))
                            if len([p for p in problems if p[1] == "inconclusive"]) > 5:
                                return dict(name=name, property="C01", verdict="inconclusive", detail=str(problems[:3]), functions=[body.name])
                            continue
                        ncases += 1
                        funcs |= ex.inlined
                        ctx = case.ctx()
                        local = ["E%d" % i for i in range(K) if case.in_range("X", yterm, i)]
                        asker = Asker(smt)
                        for phase in (0, 1):
                            snap = (list(problems), set(seen), npaths)
                            for pc, ret, calls, env in res:
                                npaths += 1
                                tag = tag0 + " path=%s" % [c for c in pc][:6]
                                pcs = "(and true %s %s)" % (" ".join(pc), " ".join(ctx))
                                v = asker.ask(pcs, "sat")
                                if v == "unsat":
                                    continue
                                if v != "sat":
                                    problems.append(("path feasibility", "inconclusive", tag))
                                    continue
                                cm = env.get("__cmps", ())
                                if cm:
                                    v = asker.ask("(and %s (not (and true %s)))" % (pcs, " ".join(cm)), "unsat")
                                    if v != "unsat":
                                        problems.append(("internal: the order type decides every key comparison on the path", "inconclusive", tag))
                                        continue
                                if ret == "PANIC" or env.get("__panic"):
                                    problems.append(("processing an item part never panics", "sat", tag + " " + str(env.get("__panic"))[:160]))
                                    continue
                                try:
                                    rp = _reply_parts(ex, env, ret)
                                    if isinstance(rp, tuple):
                                        problems.append(("the model store never fails, so process_message succeeds", "sat", tag + " ret=%s" % rp[1][:60]))
                                        continue
                                    dec = [_decode_part(ex, env, p, layouts) for p in (rp or [])]
                                except Inconclusive as e:
                                    problems.append(("the reply can be decoded", "inconclusive", tag + ": %s" % e))
                                    continue
                                # --- the received values: validate -> put -> on_insert, in message order
                                ev = env.get("__events", ())
                                want_ev = []
                                for i in range(M):
                                    want_ev.append(("validate", i))
                                    if "valid_%d" % i in pc:
                                        want_ev.append(("put", i))
                                        if "inserted_%d" % i in pc:
                                            want_ev.append(("on_insert", i))
                                if [(e[0], e[1]) for e in ev] != want_ev:
                                    problems.append(("every received value is validated, stored iff valid, announced iff stored, once each and in message order", "sat", tag + " events=%s" % [(e[0], e[1]) for e in ev]))
                                    continue
                                if any((e[0] in ("validate", "on_insert") and e[2] != "S%d" % e[1]) for e in ev):
                                    problems.append(("callbacks receive the content status that came with the value", "sat", tag + " events=%s" % (ev,)))
                                    continue
                                if not have_local and any(e[0] == "put" and not e[3] for e in ev):
                                    problems.append(("the entries to send back are read from the store before the received values are stored", "sat", tag))
                                    continue
                                # --- the reply
                                if have_local:
                                    seen.add("have_local")
                                    if rp is not None:
                                        problems.append(("an item part that says the sender has our entries (have_local) is not answered", "sat", tag))
                                    continue
                                if len(dec) > 1 or (dec and (dec[0]["kind"] != "item" or dec[0]["x"] != "X" or dec[0]["y"] != yterm or mk_v2b(dec[0]["have_local"]) != "true")):
                                    problems.append(("the answer to an item part is one item part for the same range with have_local = true", "sat", tag + " reply=%s" % str(dec)[:200]))
                                    continue
                                sent = [tuple(split_sexpr_args(t)) for t in dec[0]["values"]] if dec else []
                                if any(s_[0] not in local or s_[1] != "(cs %s)" % s_[0] for s_ in sent) or [s_[0] for s_ in sent] != [e for e in local if e in [s2[0] for s2 in sent]]:
                                    problems.append(("the answer holds local entries of the range only, in key order, each once, with the content status callback's answer", "sat", tag + " sent=%s" % str(sent)[:160]))
                                    continue
                                conj = []
                                for j, e in enumerate(local):
                                    idx = int(e[1:])
                                    dom = ["(vge (val_of R%d) (val_of %s))" % (i, e) for i, sl in enumerate(rs) if sl == 2 * idx + 1]
                                    spec = "(not (or false %s))" % " ".join(dom)
                                    conj.append("(= %s %s)" % ("true" if e in [s_[0] for s_ in sent] else "false", spec))
                                v = asker.ask("(and %s (not (and true %s)))" % (pcs, " ".join(conj)), "unsat")
                                if v != "unsat":
                                    problems.append(("the answer holds exactly the local entries of the range that no received value with the same key and a value >= theirs supersedes", v, tag + " sent=%s" % [s_[0] for s_ in sent]))
                                    continue
                                seen.add("empty" if not sent else "diff")
                                if not sent and rp is not None:
                                    problems.append(("an empty answer is not sent", "sat", tag))
                            if phase == 0:
                                problems[:] = snap[0]
                                seen.clear()
                                seen.update(snap[1])
                                npaths = snap[-1]
                                asker.flush()
                        nq += asker.asked()
    if not {"have_local", "empty", "diff"} <= seen:
        problems.append(("all answers (have_local, empty diff, non-empty diff) occur in the explored cases", "inconclusive", str(seen)))
    problems.sort(key=lambda p: p[1] == "inconclusive")
    global LAST_PROBLEMS
    LAST_PROBLEMS = problems
    return dict(name=name, property="C01", verdict=_verdict(problems),
                detail="order types=%d, feasible paths=%d; problems: %s" % (ncases, npaths, [(p[0][:90], p[1], p[2][:200]) for p in problems[:4]] or "none"),
                functions=sorted(funcs) + ["generic store modelled as the reference ordered map (get_range); put / validate / on_insert answer symbolically; Vec, iterators, FuturesOrdered modelled as sequences"],
                queries=nq, cases=ncases, witness="c01reply,c01session",
                check_message=(problems[0][0] if problems else "item parts are answered with exactly the entries the sender lacks"))


QUERIES_PM = [q_pm_fingerprint_reply, q_pm_item_reply]
