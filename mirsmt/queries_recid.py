"""E3 query (C09, C10): a `RecordIdentifier` that comes out of its decoder can be taken apart without a panic.

`RecordIdentifier` wraps the bytes namespace(32) | author(32) | key; its accessors (`namespace`, `author`, `key`,
`key_bytes`, `as_byte_tuple`, `to_byte_tuple`) slice those bytes and panic when the value is shorter than the slice
asks for.  Identifiers arrive from the network inside signed entries and range bounds of reconciliation messages, so
every value the decoder ACCEPTS must be long enough.  Both sides are executed from the MIR (Exec2), the byte
string modelled by its length (SMT integer):

  A. every body of the `Deserialize` implementation of `RecordIdentifier` (whatever serde's derive generated,
     plus `TryFrom<Bytes>`-style validation it calls): for each path that returns Ok, the facts established
     about the length of the accepted bytes (comparisons of `Bytes::len`);
  B. every accessor: for each slicing operation the requirement `end <= len` (`start <= len` for open ranges).

Decided: (disjunction over A's Ok paths of their facts) implies (every requirement of B).
"""
import re

from mirsmt import Smt, solve, mk_deref, mk_v2b, split_sexpr_args
from exec2 import Exec2, is_addr
from queries_c05 import _find
from queries_c09 import _Buf, _int_rvalue_patch, _verdict


class ExecC(Exec2):
    """Exec2 + const items (`const sync::KEY_BYTES`) evaluated from their own bodies"""

    def operand(self, env, op):
        o = re.sub(r"^(copy|move) ", "", op.strip())
        if o.startswith("const ") and re.match(r"^const [\w:]+$", o) and not re.search(r"_(usize|u64|u32|u8|i32|isize)$", o):
            name = o[6:].split("::")[-1]
            bs = self.bodies.get(name, [])
            if len(bs) == 1 and not bs[0].args and name.isupper():
                key = ("__constitem", name)
                if key not in self._promoted:
                    sub = []
                    self._walk(bs[0], "bb0", {}, [], [], sub, 1)
                    self._promoted[key] = sub[0][1] if len(sub) == 1 and not sub[0][0] else None
                if self._promoted[key] is not None:
                    return self._promoted[key]
        return super().operand(env, op)


def _range_bounds(t):
    """(lo, hi) integer terms of a Range / RangeFrom / RangeTo aggregate term (`hi` None = open)"""
    head = t.lstrip("(").split(" ")[0]
    a = split_sexpr_args(t)
    if "RangeFrom" in head:
        return "(toint %s)" % a[0], None
    if "RangeTo" in head:
        return "0", "(toint %s)" % a[0]
    if "Range" in head:
        return "(toint %s)" % a[0], "(toint %s)" % a[1]
    raise ValueError("not a range: %s" % t[:60])


def q_record_id_total(bodies):
    name = "c09_record_id_total"
    props = ["C09", "C10"]
    smt = Smt()
    for f, n in (("C_Ok", 1), ("C_Err", 1), ("C_Some", 1), ("C_None", 0), ("C_Continue", 1), ("C_Break", 1), ("C_tuple2", 2), ("C_recid", 1), ("discr", 1), ("conv", 1), ("C_slice", 1)):
        smt.fun(f, n)
    for c in ("DESER", "BYTES", "ERR", "UNIT", "VISITOR", "SEQ", "ID"):
        smt.decls.append("(declare-const %s V)" % c)
    smt.decls.append("(declare-const L Int)")
    smt.asserts.append("(>= L 0)")
    smt.decls.append("(declare-const got_bytes Bool)")
    smt.decls.append("(declare-const seq_some Bool)")
    buf = _Buf(smt)

    def m_branch(ex, v):
        x = v[0]
        if x.startswith("(C_Ok ") or x.startswith("(C_Some "):
            return "(C_Continue %s)" % split_sexpr_args(x)[0]
        if x.startswith("(C_Err "):
            return "(C_Break %s)" % x
        if x == "C_None":
            return "(C_Break C_None)"
        ok = "(= (discr %s) k_int_0)" % x
        ex._konst("int_0")
        return [(ok, "(C_Continue (unwrap_ok %s))" % x), ("(not %s)" % ok, "(C_Break (C_Err (unwrap_err %s)))" % x)]
    smt.fun("unwrap_ok", 1)
    smt.fun("unwrap_err", 1)

    def m_len(ex, v, env):
        return buf.val("L")
    m_len.wants_env = True

    def closure_call(ex, f, args, env):
        tgt = ex.resolve_call("<F as FnOnce<()>>::call_once", [f, "(C_tuple%d %s)" % (len(args), " ".join(args))], env)
        if tgt is None:
            raise ValueError("closure value not recognised: %s" % f[:80])
        body, a2 = tgt
        sub_env = {k: x for k, x in env.items() if k.startswith("__")}
        for i, x in enumerate(a2):
            sub_env["_%d" % (i + 1)] = x
        res = []
        ex.inlined.add(body.name)
        ex._walk(body, "bb0", sub_env, [], [], res, 1)
        return [("(and true %s)" % " ".join(pc) if pc else "true", ret) for pc, ret, calls, e2 in res]

    def m_and_then(ex, v, env):
        if v[0].startswith("(C_Ok "):
            return closure_call(ex, v[1], [split_sexpr_args(v[0])[0]], env)
        if v[0].startswith("(C_Err "):
            return v[0]
        raise ValueError("and_then of %s" % v[0][:60])
    m_and_then.wants_env = True

    def m_map_err(ex, v):
        if v[0].startswith("(C_Ok "):
            return v[0]
        if v[0].startswith("(C_Err "):
            return "(C_Err (conv %s))" % split_sexpr_args(v[0])[0]
        raise ValueError("map_err of %s" % v[0][:60])

    common = {
        r"^Result::<bytes::Bytes, .*>::and_then::<": m_and_then,
        r"^Result::<RecordIdentifier, .*>::map_err::<": m_map_err,
        r" as Try>::branch$": m_branch,
        r" as FromResidual<.*>>::from_residual$": lambda ex, v: v[0] if v[0].startswith("(C_Err") else "(C_Err (conv %s))" % v[0],
        r"^<bytes::Bytes as Deserialize<'_>>::deserialize::<": lambda ex, v: [("got_bytes", "(C_Ok BYTES)"), ("(not got_bytes)", "(C_Err ERR)")],
        r"SeqAccess<'_>>::next_element::<bytes::Bytes>$": lambda ex, v: [("(and got_bytes seq_some)", "(C_Ok (C_Some BYTES))"), ("(and got_bytes (not seq_some))", "(C_Ok C_None)"), ("(not got_bytes)", "(C_Err ERR)")],
        r"^RecordIdentifier$": lambda ex, v: "(C_recid %s)" % v[0],
        r"^bytes::Bytes::len$|^<bytes::Bytes as Buf>::remaining$": m_len,
        r"^<bytes::Bytes as Deref>::deref$|^<bytes::Bytes as AsRef<\[u8\]>>::as_ref$": lambda ex, v: "(C_slice BYTES)",
        r"^core::slice::<impl \[u8\]>::len$": m_len,
        r"anyhow::__private::not(::<.*>)?$": lambda ex, v: "(b2v (not %s))" % mk_v2b(v[0]),
        r"de::Error>::(invalid_length|custom|invalid_value)": lambda ex, v: "ERR",
    }
    # ---------------- A: what the decoder establishes
    dbodies = [b for n, bs in bodies.items() for b in bs
               if re.search(r"^sync::_::<impl at [^>]*>::deserialize", n) and re.search(r"Result<RecordIdentifier, ", b.ret)]
    if not dbodies:
        return dict(name=name, property="C09", properties=props, verdict="inconclusive", detail="no Deserialize implementation of RecordIdentifier found", functions=[])
    ok_facts, nq, ncases, funcs = [], 0, 0, set()
    inline = [(r"as TryFrom<bytes::Bytes>>::try_from$", r"^sync::<impl at [^>]*>::try_from$", r"bytes::Bytes")]
    for b in dbodies:
        if "deserialize_newtype_struct" in " ".join(b.blocks.get("bb0", [])) or re.search(r"::expecting$|::\{closure#\d+\}$", b.name):
            continue  # the entry point only hands a visitor to the deserializer; the visitor bodies are executed below
        ex = ExecC(bodies, smt, models=dict(common), inline=inline, int_ops=True, max_paths=400)
        _int_rvalue_patch(ex, buf)
        nargs = b.args.count(": ") if b.args else 0
        args = ["VISITOR", "SEQ"][:nargs] if nargs == 2 else ["DESER"][:nargs]
        try:
            paths = ex.run(b, args, feasibility=False)
        except (ValueError, AssertionError, KeyError, IndexError, RecursionError) as e:
            return dict(name=name, property="C09", properties=props, verdict="inconclusive", detail="decoder body %s: %r" % (b.name, e), functions=[b.name])
        funcs |= ex.inlined
        for pc, ret, calls, env in paths:
            nq += 1
            v, _ = solve(smt.script("(and true %s)" % " ".join(pc)))
            if v == "unsat":
                continue
            ncases += 1
            if ret.startswith("(C_Ok "):
                if "C_recid" not in ret and "mk_RecordIdentifier BYTES" not in ret:
                    return dict(name=name, property="C09", properties=props, verdict="inconclusive", detail="decoder path returns an identifier built elsewhere: %s" % ret[:80], functions=[b.name])
                ok_facts.append("(and true %s)" % " ".join(pc))
    if not ok_facts:
        return dict(name=name, property="C09", properties=props, verdict="inconclusive", detail="the decoder never accepts", functions=sorted(funcs))
    accepted = "(or false %s)" % " ".join(ok_facts)
    # ---------------- B: what the accessors need
    acc = ["key", "key_bytes", "namespace", "author", "as_byte_tuple", "to_byte_tuple"]
    problems = []
    for a in acc:
        hits = _find(bodies, r"^sync::<impl at [^>]*>::%s$" % a, r"^_1: &RecordIdentifier")
        if len(hits) != 1:
            problems.append(("every accessor of RecordIdentifier is found", "inconclusive", a))
            continue
        reqs = []

        def m_index(ex, v, env, reqs=reqs):
            lo, hi = _range_bounds(v[1])
            reqs.append((lo, hi))
            return "(C_slice BYTES)"
        m_index.wants_env = True
        models = dict(common)
        models.update({
            r"^<\[u8\] as Index<.*>>::index$|^bytes::Bytes::slice::<": m_index,
            r"as TryInto<&?\[u8; 32\]>>::try_into$": lambda ex, v: "(C_Ok %s)" % v[0],
            r"^Result::<&?\[u8; 32\], TryFromSliceError>::unwrap$": lambda ex, v: split_sexpr_args(v[0])[0],
        })
        ex = ExecC(bodies, smt, models=models, int_ops=True, max_paths=100)
        heap0 = {("(ref ID)", "0"): "BYTES"}
        try:
            paths = ex.run(hits[0], ["(ref ID)"], heap0=heap0, feasibility=False)
        except (ValueError, AssertionError, KeyError, IndexError, RecursionError) as e:
            problems.append(("accessor %s can be followed" % a, "inconclusive", repr(e)[:120]))
            continue
        funcs.add(hits[0].name)
        if not reqs:
            problems.append(("accessor %s slices the identifier" % a, "inconclusive", "no slicing operation seen"))
            continue
        for lo, hi in reqs:
            need = "(and (<= %s L) %s)" % (lo, ("(<= %s L) (<= %s %s)" % (hi, lo, hi)) if hi else "true")
            nq += 1
            v, _ = solve(smt.script("(and %s (not %s))" % (accepted, need)))
            ncases += 1
            if v != "unsat":
                problems.append(("an identifier accepted by the decoder is long enough for everything its accessors slice (namespace 0..32, author 32..64, key 64..): no hostile entry or range bound can make them panic",
                                 v, "%s needs bytes [%s, %s)" % (a, lo, hi or "len")))
                break
    problems.sort(key=lambda p: p[1] == "inconclusive")  # a confirmed problem names the check
    return dict(name=name, property="C09", properties=props, verdict=_verdict([p for p in problems]),
                detail="decoder Ok paths=%d; accessors=%d; problems: %s" % (len(ok_facts), len(acc), problems[:3] or "none"),
                functions=sorted(funcs) + ["serde Deserializer / SeqAccess, bytes::Bytes (modelled: an accepted byte string of symbolic length)"],
                queries=nq, cases=ncases, witness="c09recid",
                check_message=(problems[0][0] if problems else "decoded identifiers are well-formed"))


QUERIES_RECID = [q_record_id_total]
