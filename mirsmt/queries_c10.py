"""E3 queries for C10 over the REAL session state machines of src/net/codec.rs — `BobState::run` (acceptor)
and `run_alice` (initiator) — executed from their coroutine MIR (Exec2) with every await answered Ready and the
peer's frames given as a SCRIPT: every sequence of up to N frames over the alphabet {Init, Sync, Abort, a frame
that does not decode} followed by end of stream.  The payloads, the accept decision (Allow / Reject(reason)),
what the store actor answers to each processed message (error = actor gone / replica closed / sync disabled,
Ok(reply, progress), Ok(no reply, progress)) and the outcome of each send are symbolic.  Decided on every path:

 acceptor  * a message is handed to the store exactly for (Init, no document yet, Allow) and (Sync, document known);
             a declined request sends Abort{reason}, returns Err(Abort{namespace, peer, reason}) and touches the store
             NOT AT ALL; Init twice, Sync before Init, Abort, undecodable frames are errors and touch nothing more
           * the progress handed to the store is the one the previous step returned (first: the initial one); the
             namespace / peer handed over are the request's / the connection's
           * `progress.take().unwrap()` is never reached with an empty slot (no panic)
           * Ok(namespace) is returned only after an Init was processed, with the Init's namespace; after run
             returned, into_outcome never panics, and on success yields the LAST progress the store returned
           * a reply is sent as Sync(reply) iff the store produced one; no reply ends the session successfully
 initiator * first the initial message of the document is sent as Init{namespace, message}
           * Sync(msg) is processed with (namespace, msg, peer, threaded progress); a store error ends with Err
           * Abort{reason} => Err(RemoteAbort(reason)); Init => Err; undecodable => Err
           * the final `progress.unwrap()` is never reached with an empty slot; the Ok value is the last progress
"""
import itertools
import re

from mirsmt import Smt, solve, mk_deref, mk_v2b, split_sexpr_args
from exec2 import Exec2, is_addr
from queries_c05 import _find, _enum_variants, _src
from queries_ins import _tracing_off

THOROUGH = __import__("os").environ.get("VERIF_E3_TIER", "quick") == "thorough"


def _deep(ex, env, t):
    for _ in range(8):
        if is_addr(t):
            t = ex.load(env, t, whole=False)
        elif t.startswith("(ref "):
            t = mk_deref(t)
        else:
            break
    return t


def _verdict(problems):
    if any(p[1] != "inconclusive" for p in problems):
        return "violated"
    return "inconclusive" if problems else "holds"


def _setup(smt, nmsg):
    for f, n in (("C_Ok", 1), ("C_Err", 1), ("C_Some", 1), ("C_None", 0), ("C_Continue", 1), ("C_Break", 1), ("CE_Poll_Ready", 1), ("CE_Poll_Pending", 0),
                 ("discr", 1), ("C_pin", 1), ("C_tuple2", 2), ("out", 1), ("C_futnext", 0), ("C_futaccept", 2), ("C_futproc", 5), ("C_futsend", 1), ("C_futinit", 1),
                 ("acc_err", 1), ("CE_AcceptOutcome_Allow", 0), ("CE_AcceptOutcome_Reject", 1), ("conn_err", 1)):
        smt.fun(f, n)
    for c in ("CORO", "CX", "LOGLVL", "UNIT", "STATE", "WRITER", "READER", "HANDLE", "ACCEPTCB", "PEER", "PEERBYTES", "P0", "REJ", "NSARG", "INITMSG", "DEFAULTOUT", "DECERR", "SENDERR", "PROCERR", "INITERR"):
        smt.decls.append("(declare-const %s V)" % c)
    for i in range(nmsg + 1):
        for c in ("NS_%d", "MSG_%d", "R_%d", "REPLY_%d", "P_%d"):
            smt.decls.append("(declare-const %s V)" % (c % i))
        smt.decls.append("(declare-const proc_ok_%d Bool)" % i)
        smt.decls.append("(declare-const proc_reply_%d Bool)" % i)
        smt.decls.append("(declare-const send_ok_%d Bool)" % i)
    smt.decls.append("(declare-const allow Bool)")
    smt.decls.append("(declare-const init_ok Bool)")


def _item(kind, i):
    if kind == "I":
        return "(C_Some (C_Ok (CE_Message_Init NS_%d MSG_%d)))" % (i, i)
    if kind == "S":
        return "(C_Some (C_Ok (CE_Message_Sync MSG_%d)))" % i
    if kind == "A":
        return "(C_Some (C_Ok (CE_Message_Abort R_%d)))" % i
    if kind == "E":
        return "(C_Some (C_Err DECERR))"
    return "C_None"


def _opaque_result(ex, x, wrap_err=None):
    """an opaque Result value: both outcomes"""
    ok = "(= (discr %s) k_int_0)" % x
    ex._konst("int_0")
    ex.smt.fun("unwrap_ok", 1)
    ex.smt.fun("unwrap_err", 1)
    e = "(unwrap_err %s)" % x
    return [(ok, "(C_Ok (unwrap_ok %s))" % x), ("(not %s)" % ok, "(C_Err %s)" % ((wrap_err % e) if wrap_err else e))]


def _models(smt, script, rec_factory):
    """models shared by both sides; `script` = list of kinds"""

    def m_next(ex, v):
        return "C_futnext"

    def m_poll(ex, v, env):
        fut = _deep(ex, env, v[0])
        if fut == "C_futnext":
            i = env.get("__pos", 0)
            env["__pos"] = i + 1
            kind = script[i] if i < len(script) else "EOF"
            return "(CE_Poll_Ready %s)" % _item(kind, i)
        if fut.startswith("(C_futaccept "):
            return [("allow", "(CE_Poll_Ready CE_AcceptOutcome_Allow)"), ("(not allow)", "(CE_Poll_Ready (CE_AcceptOutcome_Reject REJ))")]
        if fut.startswith("(C_futproc "):
            k = env.get("__nproc", 0)   # index of this process call (already counted by the call model)
            j = k - 1
            return [("(and proc_ok_%d proc_reply_%d)" % (j, j), "(CE_Poll_Ready (C_Ok (C_tuple2 (C_Some REPLY_%d) P_%d)))" % (j, j)),
                    ("(and proc_ok_%d (not proc_reply_%d))" % (j, j), "(CE_Poll_Ready (C_Ok (C_tuple2 C_None P_%d)))" % j),
                    ("(not proc_ok_%d)" % j, "(CE_Poll_Ready (C_Err PROCERR))")]
        if fut.startswith("(C_futsend "):
            j = env.get("__nsend", 0) - 1
            return [("send_ok_%d" % j, "(CE_Poll_Ready (C_Ok UNIT))"), ("(not send_ok_%d)" % j, "(CE_Poll_Ready (C_Err SENDERR))")]
        if fut.startswith("(C_futinit "):
            return [("init_ok", "(CE_Poll_Ready (C_Ok INITMSG))"), ("(not init_ok)", "(CE_Poll_Ready (C_Err INITERR))")]
        # a future this query does not know (e.g. a join of several): opaque result; the path is only used for the
        # checks that do not depend on it, and otherwise reported as inconclusive
        env["__unknown_future"] = env.get("__unknown_future", ()) + (fut[:80],)
        return "(CE_Poll_Ready (out %s))" % fut
    m_poll.wants_env = True

    def m_proc(ex, v, env):
        args = tuple(_deep(ex, env, x) for x in v[1:])
        env["__procs"] = env.get("__procs", ()) + (args,)
        env["__nproc"] = env.get("__nproc", 0) + 1
        env["__events"] = env.get("__events", ()) + (("proc", env.get("__pos", 0) - 1),)
        return "(C_futproc %s)" % " ".join(v)
    m_proc.wants_env = True

    def m_send(ex, v, env):
        env["__sends"] = env.get("__sends", ()) + (_deep(ex, env, v[1]),)
        env["__nsend"] = env.get("__nsend", 0) + 1
        return "(C_futsend %s)" % v[1]
    m_send.wants_env = True

    def m_branch(ex, v):
        x = v[0]
        if x.startswith("(C_Ok ") or x.startswith("(C_Some "):
            return "(C_Continue %s)" % split_sexpr_args(x)[0]
        if x.startswith("(C_Err "):
            return "(C_Break %s)" % x
        if x == "C_None":
            return "(C_Break C_None)"
        return [(c, "(C_Continue %s)" % split_sexpr_args(val)[0] if val.startswith("(C_Ok") else "(C_Break %s)" % val) for c, val in _opaque_result(ex, x)]

    def m_take(ex, v, env):
        a = v[0]
        old = ex.load(env, a, whole=False) if is_addr(a) else _deep(ex, env, a)
        ex.store(env, a, "C_None")
        return old
    m_take.wants_env = True

    def m_unwrap(ex, v, env):
        x = v[0]
        if x.startswith("(C_Some "):
            return split_sexpr_args(x)[0]
        if x == "C_None":
            env["__panic"] = env.get("__panic", ()) + ("unwrap on an empty progress slot",)
            return "DEFAULTOUT"
        raise ValueError("unwrap of %s" % x[:60])
    m_unwrap.wants_env = True

    def m_as_ref(ex, v, env):
        x = _deep(ex, env, v[0])
        if x == "C_None":
            return "C_None"
        if x.startswith("(C_Some "):
            return "(C_Some (ref %s))" % split_sexpr_args(x)[0]
        raise ValueError("as_ref of %s" % x[:60])
    m_as_ref.wants_env = True

    def m_unwrap_or_default(ex, v):
        if v[0].startswith("(C_Some "):
            return split_sexpr_args(v[0])[0]
        if v[0] == "C_None":
            return "DEFAULTOUT"
        raise ValueError("unwrap_or_default of %s" % v[0][:60])

    models = _tracing_off()
    models.update({
        r"^Pin::<&mut .*>::new_unchecked$": lambda ex, v: v[0],
        r"as IntoFuture>::into_future$": lambda ex, v: v[0],
        r"as Future>::poll$": m_poll,
        r"StreamExt>::next$": m_next,
        r"^Framed(Read|Write)::<.*>::new$": lambda ex, v: v[0],
        r"^SyncHandle::sync_process_message$": m_proc,
        r"SinkExt<net::codec::Message>>::send$": m_send,
        r" as Try>::branch$": m_branch,
        r" as FromResidual<.*>>::from_residual$": lambda ex, v: v[0] if v[0].startswith("(C_Err") else "(C_Err %s)" % v[0],
        r"^(std::option::)?Option::<sync::SyncOutcome>::take$": m_take,
        r"^(std::option::)?Option::<sync::SyncOutcome>::unwrap$": m_unwrap,
        r"^(std::option::)?Option::<sync::SyncOutcome>::unwrap_or_default$": m_unwrap_or_default,
        r"^(std::option::)?Option::<keys::NamespaceId>::as_ref$": m_as_ref,
        r"^iroh::PublicKey::as_bytes$": lambda ex, v: "(ref PEERBYTES)",
        r"^Span::current$|^Span::record::<|NamespaceId::fmt_short$|^display::<|tracing::field::display": lambda ex, v: "UNIT",
        r"anyhow::__private::format_err$|anyhow::__private::must_use$|Arguments::<'_>::from_str$": lambda ex, v: "UNIT",
        r"^<sync::SyncOutcome as (std::default::)?Default>::default$": lambda ex, v: "P0",
    })
    return models


def _scripts(n):
    out = [[]]
    for k in range(1, n + 1):
        out += [list(s) for s in itertools.product("ISAE", repeat=k)]
    return out


def q_c10_bob_steps(bodies):
    name = "c10_bob_steps"
    hits = _find(bodies, r"^net::codec::<impl at [^>]*>::run::\{closure#0\}$", r"Poll<Result<keys::NamespaceId, net::AcceptError>>")
    outs = _find(bodies, r"^net::codec::<impl at [^>]*>::into_outcome$")
    cod = _src("src/net/codec.rs")
    msgv = _enum_variants(cod, "Message")
    m = re.search(r"pub struct BobState \{(.*?)\n\}", cod, re.S)
    bf = re.findall(r"^\s*(?:pub(?:\([^)]*\))? )?(\w+)\s*:", m.group(1), re.M) if m else []
    ao = _enum_variants(_src("src/net.rs"), "AcceptOutcome")
    if len(hits) != 1 or len(outs) != 1 or not msgv or sorted(bf) != ["namespace", "peer", "progress"] or [v for v, _ in ao or []] != ["Allow", "Reject"]:
        return dict(name=name, property="C10", verdict="inconclusive", detail="bodies / layouts not found (%d, %d, %s, %s)" % (len(hits), len(outs), bf, ao), functions=[])
    body, outb = hits[0], outs[0]
    md = dict(msgv)
    if md.get("Init") != ["namespace", "message"] or md.get("Abort") != ["reason"] or "Sync" not in md:
        return dict(name=name, property="C10", verdict="inconclusive", detail="Message layout changed: %s" % msgv, functions=[body.name])
    up = {}
    for var, expr in body.debug.items():
        mm = re.match(r"^\(\(\*_\d+\)\.(\d+): ", expr)
        if mm:
            up[var] = mm.group(1)
    if any(v not in up for v in ("self", "writer", "reader", "sync", "accept_cb")):
        return dict(name=name, property="C10", verdict="inconclusive", detail="coroutine upvars not recognised: %s" % up, functions=[body.name])
    enums = {"Message": [v for v, _ in msgv], "AcceptOutcome": ["Allow", "Reject"], "Poll": ["Ready", "Pending"], "AcceptError": [v for v, _ in _enum_variants(_src("src/net.rs"), "AcceptError")]}
    N = 3 if THOROUGH else 2
    problems, nq, ncases, nscripts = [], 0, 0, 0
    funcs = set()
    for script in _scripts(N):
        nscripts += 1
        smt = Smt()
        _setup(smt, N + 1)
        for v, f in msgv:
            smt.fun("CE_Message_%s" % v, max(1, len(f)) if v != "Sync" else 1)
        models = _models(smt, script, None)

        def m_accept_call(ex, v, env):
            a = split_sexpr_args(v[1]) if v[1].startswith("(C_tuple") else [v[1]]
            env["__accepts"] = env.get("__accepts", ()) + (tuple(_deep(ex, env, x) for x in a),)
            return "(C_futaccept %s %s)" % (a[0], a[1] if len(a) > 1 else "UNIT")
        m_accept_call.wants_env = True

        def m_map_err(ex, v):
            if v[0].startswith("(C_Ok "):
                return v[0]
            if v[0].startswith("(C_Err "):
                return "(C_Err (acc_err %s))" % split_sexpr_args(v[0])[0]
            return _opaque_result(ex, v[0], "(acc_err %s)")

        def m_ok_or_else(ex, v):
            if v[0].startswith("(C_Some "):
                return "(C_Ok %s)" % split_sexpr_args(v[0])[0]
            if v[0] == "C_None":
                return "(C_Err (acc_err UNIT))"
            raise ValueError("ok_or_else of %s" % v[0][:60])
        models.update({
            r"^<F as Fn<\(keys::NamespaceId, iroh::PublicKey\)>>::call$": m_accept_call,
            r"^Result::<.*>::map_err::<net::AcceptError, ": m_map_err,
            r"^BobState::fail::<": lambda ex, v: "(acc_err %s)" % v[1],
            r"^(std::option::)?Option::<keys::NamespaceId>::ok_or_else::<": m_ok_or_else,
        })
        ex = Exec2(bodies, smt, models=models, enums=enums, max_paths=8000,
                   inline=[(r"^BobState::namespace$", r"^net::codec::<impl at [^>]*>::namespace$", r"BobState")])
        ex.discr_of["(deref CORO)"] = 0
        for i, l in enumerate(["TRACE", "DEBUG", "INFO", "WARN", "ERROR"]):
            ex.discr_of["(fld_0 k_tracing__Level__%s)" % l] = i
        heap0 = {("CORO", up["self"]): "STATE", ("CORO", up["writer"]): "WRITER", ("CORO", up["reader"]): "READER", ("CORO", up["sync"]): "HANDLE", ("CORO", up["accept_cb"]): "ACCEPTCB",
                 ("STATE", str(bf.index("namespace"))): "C_None", ("STATE", str(bf.index("peer"))): "PEER", ("STATE", str(bf.index("progress"))): "(C_Some P0)"}
        res = []
        try:
            ex._walk(body, "bb0", {"__heap": heap0, "_1": "(C_pin CORO)", "_2": "CX"}, [], [], res, 0)
        except (ValueError, AssertionError, KeyError, IndexError, RecursionError) as e:
            problems.append(("the acceptor can be followed on every frame script", "inconclusive", "script=%s: %r" % ("".join(script), e)))
            continue
        funcs |= ex.inlined
        for pc, ret, calls, env in res:
            nq += 1
            v, _ = solve(smt.script("(and true %s)" % " ".join(pc)))
            if v == "unsat":
                continue
            ncases += 1
            tag = "frames=%s then EOF; %s" % ("".join(script) or "-", [c for c in pc if re.match(r"^\(?(not )?\(?(allow|proc_|send_|and proc)", c)][:5])
            procs, sends, accepts = env.get("__procs", ()), env.get("__sends", ()), env.get("__accepts", ())
            heap = env.get("__heap", {})
            slot = heap.get(("STATE", str(bf.index("progress"))), "(C_Some P0)")
            nsnow = heap.get(("STATE", str(bf.index("namespace"))), "C_None")
            if env.get("__panic"):
                problems.append(("progress.take().unwrap() is never reached with an empty slot (no panic while a session runs)", "sat", tag))
                continue
            if "CE_AcceptError_Abort" in ret and procs:
                problems.append(("a declined request changes nothing in the store: no message of a declined session is processed", "sat", tag + " processed=%d before the request was declined" % len(procs)))
                continue
            if env.get("__unknown_future"):
                problems.append(("every future the acceptor awaits is one this query understands", "inconclusive", tag + " %s" % (env["__unknown_future"][:1],)))
                continue
            # --- expected behaviour, computed from the script and the symbolic answers on this path
            exp_procs, exp_sends, ns, prog, outcome, k = [], [], None, "P0", None, 0
            rejected = False
            for i, kind in enumerate(script + ["EOF"]):
                if kind == "EOF":
                    outcome = ("ok", ns) if ns is not None else ("err", None)
                    break
                if kind == "E":
                    outcome = ("err", None)
                    break
                if kind == "A" or (kind == "I" and ns is not None) or (kind == "S" and ns is None):
                    outcome = ("err", None)
                    break
                if kind == "I":
                    if "(not allow)" in pc:
                        rejected = True
                        exp_sends.append("(CE_Message_Abort REJ)")
                        outcome = ("err_abort", "NS_%d" % i) if "send_ok_0" in pc else ("err", None)
                        break
                    call_ns, call_msg = "NS_%d" % i, "MSG_%d" % i
                else:
                    call_ns, call_msg = ns, "MSG_%d" % i
                exp_procs.append((call_ns, call_msg, "PEERBYTES", prog))
                if kind == "I":
                    ns = call_ns
                if "(not proc_ok_%d)" % k in pc:
                    outcome = ("err", None)
                    prog = None
                    break
                prog = "P_%d" % k
                if "(and proc_ok_%d proc_reply_%d)" % (k, k) in pc:
                    exp_sends.append("(CE_Message_Sync REPLY_%d)" % k)
                    sidx = len(exp_sends) - 1
                    k += 1
                    if "(not send_ok_%d)" % sidx in pc:
                        outcome = ("err", None)
                        break
                else:
                    k += 1
                    outcome = ("ok", ns)
                    break
            got_procs = [tuple(p) for p in procs]
            if rejected and env.get("__pos", 0) != 1:
                problems.append(("a declined request ends the session at once: no further frame is awaited after the request was declined (the acceptor's end must not depend on the peer closing its stream)", "sat",
                                 tag + " frames awaited=%d" % env.get("__pos", 0)))
                continue
            if rejected and got_procs:
                problems.append(("a declined request changes nothing in the store: no message of a declined session is processed", "sat", tag + " processed=%d" % len(got_procs)))
                continue
            if got_procs != exp_procs:
                problems.append(("a message is handed to the store exactly for (Init, Allow) and for Sync after Init, with the request's document, the connection's peer and the progress the previous step returned",
                                 "sat", tag + " got=%s want=%s" % (got_procs[:2], exp_procs[:2])))
                continue
            if list(sends) != exp_sends:
                problems.append(("a reply is sent as Sync(reply) exactly when the store produced one; a declined request is answered with Abort{reason}", "sat", tag + " sent=%s want=%s" % (list(sends)[:2], exp_sends[:2])))
                continue
            if len(accepts) > 1 or (accepts and accepts[0][1] != "PEER"):
                problems.append(("the accept decision is asked once, for the requesting peer", "sat", tag + " accepts=%s" % (accepts,)))
                continue
            # attribution: once a request was ALLOWED its document is on record in the state, whatever happens afterwards —
            # net::handle_connection reports a failed session with `state.namespace()` (that is how the live engine finds the
            # (document, peer) slot it has to free)
            allowed_ns = None
            for i, kind in enumerate(script):
                if kind == "I":
                    if "allow" in pc and "(not allow)" not in pc:
                        allowed_ns = "NS_%d" % i
                    break
                if kind in ("S", "A", "E"):
                    break
            if allowed_ns is not None and exp_procs and nsnow != "(C_Some %s)" % allowed_ns:
                problems.append(("an accepted request is on record in the state (namespace) from the moment it was allowed, so that every later failure of the session is reported for that document", "sat",
                                 tag + " state.namespace=%s" % nsnow[:40]))
                continue
            is_ok = ret.startswith("(CE_Poll_Ready (C_Ok ")
            if outcome[0] == "ok":
                if not is_ok or split_sexpr_args(split_sexpr_args(ret)[0])[0] != outcome[1]:
                    problems.append(("a session that ran to its end returns the document of its Init", "sat", tag + " ret=%s" % ret[:80]))
                    continue
                if slot != "(C_Some %s)" % prog:
                    problems.append(("on success the outcome is the last progress the store returned (the two sides' counts mirror)", "sat", tag + " slot=%s want=%s" % (slot[:40], prog)))
                    continue
            else:
                if is_ok:
                    problems.append(("unexpected, undecodable or failed steps end the session with a reported error", "sat", tag + " ret=%s" % ret[:80]))
                    continue
                if outcome[0] == "err_abort" and not ("CE_AcceptError_Abort" in ret and outcome[1] in ret and "REJ" in ret and "PEER" in ret):
                    problems.append(("a declined request is reported as Abort{namespace, peer, reason}", "sat", tag + " ret=%s" % ret[:120]))
                    continue
            # into_outcome after run: never panics (unwrap_or_default), decided on the final slot value
            if not (slot == "C_None" or slot.startswith("(C_Some ")):
                problems.append(("the progress slot is an Option value after run", "inconclusive", tag + " slot=%s" % slot[:40]))
    # into_outcome itself
    out_text = "\n".join(st for b in outb.blocks.values() for st in b)
    if re.search(r"Option::<sync::SyncOutcome>::(unwrap|expect)\(", out_text):
        problems.append(("the accepting side can always report its outcome after run returned (into_outcome does not unwrap an empty slot)", "sat", "into_outcome unwraps"))
    problems.sort(key=lambda p: p[1] == "inconclusive")  # a confirmed problem names the check
    return dict(name=name, property="C10", verdict=_verdict(problems), detail="frame scripts=%d (length <= %d), feasible paths=%d; problems: %s" % (nscripts, N, ncases, problems[:3] or "none"),
                functions=sorted(funcs) + [outb.name, "tokio_util Framed{Read,Write}, StreamExt::next, SinkExt::send, SyncHandle::sync_process_message, the accept callback (symbolic answers)"],
                queries=nq, cases=ncases, witness="c10steps",
                check_message=(problems[0][0] if problems else "the accepting side handles every frame script"))


def q_c10_alice_steps(bodies):
    name = "c10_alice_steps"
    hits = _find(bodies, r"^run_alice::\{closure#0\}$", r"Poll<Result<sync::SyncOutcome, net::ConnectError>>")
    cod = _src("src/net/codec.rs")
    msgv = _enum_variants(cod, "Message")
    if len(hits) != 1 or not msgv:
        return dict(name=name, property="C10", verdict="inconclusive", detail="run_alice not found (%d)" % len(hits), functions=[])
    body = hits[0]
    up = {}
    for var, expr in body.debug.items():
        mm = re.match(r"^\(\(\*_\d+\)\.(\d+): ", expr)
        if mm:
            up[var] = mm.group(1)
    if any(v not in up for v in ("writer", "reader", "handle", "namespace", "peer")):
        return dict(name=name, property="C10", verdict="inconclusive", detail="coroutine upvars not recognised: %s" % up, functions=[body.name])
    ce = _enum_variants(_src("src/net.rs"), "ConnectError")
    enums = {"Message": [v for v, _ in msgv], "Poll": ["Ready", "Pending"], "ConnectError": [v for v, _ in ce]}
    N = 3 if THOROUGH else 2
    problems, nq, ncases, nscripts = [], 0, 0, 0
    for script in _scripts(N):
        nscripts += 1
        smt = Smt()
        _setup(smt, N + 1)
        for v, f in msgv:
            smt.fun("CE_Message_%s" % v, max(1, len(f)) if v != "Sync" else 1)
        models = _models(smt, script, None)

        def m_init(ex, v, env):
            env["__initreq"] = env.get("__initreq", ()) + (_deep(ex, env, v[1]),)
            return "(C_futinit %s)" % v[1]
        m_init.wants_env = True

        def m_map_err(ex, v):
            if v[0].startswith("(C_Ok "):
                return v[0]
            if v[0].startswith("(C_Err "):
                return "(C_Err (conn_err %s))" % split_sexpr_args(v[0])[0]
            return _opaque_result(ex, v[0], "(conn_err %s)")
        models.update({
            r"^SyncHandle::sync_initial_message$": m_init,
            r"^Result::<.*>::map_err::<net::ConnectError, ": m_map_err,
            r"^net::ConnectError::sync::<|^ConnectError::sync::<": lambda ex, v: "(conn_err %s)" % v[0],
            r"^(net::)?ConnectError::remote_abort$": lambda ex, v: "(CE_ConnectError_RemoteAbort %s)" % v[0],
        })
        smt.fun("CE_ConnectError_RemoteAbort", 1)
        ex = Exec2(bodies, smt, models=models, enums=enums, max_paths=8000)
        ex.discr_of["(deref CORO)"] = 0
        for i, l in enumerate(["TRACE", "DEBUG", "INFO", "WARN", "ERROR"]):
            ex.discr_of["(fld_0 k_tracing__Level__%s)" % l] = i
        heap0 = {("CORO", up["writer"]): "WRITER", ("CORO", up["reader"]): "READER", ("CORO", up["handle"]): "HANDLE", ("CORO", up["namespace"]): "NSARG", ("CORO", up["peer"]): "PEER"}
        res = []
        try:
            ex._walk(body, "bb0", {"__heap": heap0, "_1": "(C_pin CORO)", "_2": "CX"}, [], [], res, 0)
        except (ValueError, AssertionError, KeyError, IndexError, RecursionError) as e:
            problems.append(("the initiator can be followed on every frame script", "inconclusive", "script=%s: %r" % ("".join(script), e)))
            continue
        for pc, ret, calls, env in res:
            nq += 1
            v, _ = solve(smt.script("(and true %s)" % " ".join(pc)))
            if v == "unsat":
                continue
            ncases += 1
            tag = "replies=%s then EOF; %s" % ("".join(script) or "-", [c for c in pc if re.match(r"^\(?(not )?\(?(init_ok|proc_|send_|and proc)", c)][:5])
            procs, sends = env.get("__procs", ()), env.get("__sends", ())
            if env.get("__panic"):
                problems.append(("the initiator never unwraps an empty progress slot (no panic)", "sat", tag))
                continue
            if env.get("__unknown_future"):
                problems.append(("every future the initiator awaits is one this query understands", "inconclusive", tag + " %s" % (env["__unknown_future"][:1],)))
                continue
            if env.get("__initreq", ()) != ("NSARG",):
                problems.append(("the session starts by asking the store for the document's initial message", "sat", tag + " %s" % (env.get("__initreq"),)))
                continue
            exp_procs, exp_sends, prog, outcome, k = [], [], "P0", None, 0
            if "(not init_ok)" in pc:
                outcome = ("err", None)
            else:
                exp_sends.append("(CE_Message_Init NSARG INITMSG)")
                if "(not send_ok_0)" in pc:
                    outcome = ("err", None)
            sidx = 1
            if outcome is None:
                for i, kind in enumerate(script + ["EOF"]):
                    if kind == "EOF":
                        outcome = ("ok", prog)
                        break
                    if kind in ("E", "I"):
                        outcome = ("err", None)
                        break
                    if kind == "A":
                        outcome = ("abort", "R_%d" % i)
                        break
                    exp_procs.append(("NSARG", "MSG_%d" % i, "PEERBYTES", prog))
                    if "(not proc_ok_%d)" % k in pc:
                        outcome = ("err", None)
                        break
                    prog = "P_%d" % k
                    if "(and proc_ok_%d proc_reply_%d)" % (k, k) in pc:
                        exp_sends.append("(CE_Message_Sync REPLY_%d)" % k)
                        k += 1
                        if "(not send_ok_%d)" % sidx in pc:
                            outcome = ("err", None)
                            break
                        sidx += 1
                    else:
                        k += 1
                        outcome = ("ok", prog)
                        break
            if [tuple(p) for p in procs] != exp_procs:
                problems.append(("every Sync reply is processed with the dialled document, the peer and the progress the previous step returned; nothing else is", "sat", tag + " got=%s want=%s" % (list(procs)[:2], exp_procs[:2])))
                continue
            if list(sends) != exp_sends:
                problems.append(("the initiator sends Init{namespace, initial message} first and then Sync(reply) exactly when the store produced a reply", "sat", tag + " sent=%s want=%s" % (list(sends)[:2], exp_sends[:2])))
                continue
            is_ok = ret.startswith("(CE_Poll_Ready (C_Ok ")
            if outcome[0] == "ok":
                if not is_ok or split_sexpr_args(split_sexpr_args(ret)[0])[0] != outcome[1]:
                    problems.append(("a completed session returns the last progress the store returned (counts mirror the acceptor's)", "sat", tag + " ret=%s want=%s" % (ret[:60], outcome[1])))
            elif outcome[0] == "abort":
                if is_ok or "CE_ConnectError_RemoteAbort" not in ret or outcome[1] not in ret:
                    problems.append(("an Abort{reason} from the peer is reported as RemoteAbort(reason)", "sat", tag + " ret=%s" % ret[:80]))
            else:
                if is_ok:
                    problems.append(("unexpected, undecodable or failed steps end the session with a reported error", "sat", tag + " ret=%s" % ret[:80]))
    problems.sort(key=lambda p: p[1] == "inconclusive")  # a confirmed problem names the check
    return dict(name=name, property="C10", verdict=_verdict(problems), detail="reply scripts=%d (length <= %d), feasible paths=%d; problems: %s" % (nscripts, N, ncases, problems[:3] or "none"),
                functions=[body.name, "tokio_util Framed{Read,Write}, StreamExt::next, SinkExt::send, SyncHandle::{sync_initial_message,sync_process_message} (symbolic answers)"],
                queries=nq, cases=ncases, witness="c10steps",
                check_message=(problems[0][0] if problems else "the initiating side handles every reply script"))


def _defs_of(body, place):
    pat = "^" + re.escape(place) + " = "
    return [st for blk in body.blocks.values() for st in blk if re.match(pat, st)]


def _trace_place(body, place, call_re, depth=0):
    """follow `place` backwards through single assignments that are plain copies / moves / borrows until a call matching
    `call_re` -> (True, the call's argument text) | (False, what it is assigned from) | (None, reason)"""
    if depth > 8:
        return None, "copy chain too long"
    defs = _defs_of(body, place)
    if len(defs) != 1:
        return None, "%s is assigned %d times" % (place[:50], len(defs))
    rhs = defs[0].split(" = ", 1)[1]
    m = re.match(r"^(%s)\((.*?)\) -> \[" % call_re, rhs)
    if m:
        return True, m.group(2)
    m = re.match(r"^(?:no_retag )?(?:copy |move |&(?:mut )?)(\(?.+?\)?);$", rhs)
    if m and "(" not in m.group(1).split(":")[0].replace("((", "").replace("(*", ""):
        return _trace_place(body, m.group(1), call_re, depth + 1)
    if m:
        return _trace_place(body, m.group(1), call_re, depth + 1)
    return False, rhs[:100]


def q_c10_accept_report(bodies):
    """MIR data flow over `net::handle_connection` (the coroutine that wraps `BobState::run` on a QUIC connection): every
    `AcceptError::close(peer, namespace, error)` it can return — a failure while finishing / draining the streams AFTER the
    session ran — names the document the session was about as recorded in the state (`BobState::namespace(&state)`, which
    c10_bob_steps shows to be on record from the moment the request was allowed), not something that is only known when the
    session succeeded; and the peer is the connection's remote id.  `into_outcome` is taken from the same state."""
    name = "c10_accept_report"
    hits = _find(bodies, r"^net::handle_connection::\{closure#0\}$")
    if len(hits) != 1:
        return dict(name=name, property="C10", verdict="inconclusive", detail="handle_connection coroutine not found (%d)" % len(hits), functions=[])
    body = hits[0]
    problems, nsites = [], 0
    # closures whose body builds AcceptError::close
    closers = {}
    for n, bs in bodies.items():
        if re.match(r"^net::handle_connection::\{closure#0\}::\{closure#\d+\}$", n):
            for b in bs:
                text = " ".join(st for blk in b.blocks.values() for st in blk)
                mc = re.search(r"= (?:net::)?AcceptError::close(?:::<[^(]*>)?\((.*?)\) -> \[", text)
                cl = re.match(r"^_1: (\{closure@[^}]*\})", b.args)
                if mc and cl:
                    closers[cl.group(1)] = (b, mc.group(1))
    if not closers:
        return dict(name=name, property="C10", verdict="inconclusive", detail="no closure building AcceptError::close found", functions=[body.name])
    state_places = set()
    for clo, (cb, cargs) in closers.items():
        # which captured field is handed to `close` as its namespace (2nd) and peer (1st) argument
        args = [a.strip() for a in cargs.split(",")]
        fld = {}
        for role, a in (("peer", args[0]), ("namespace", args[1])):
            local = re.sub(r"^(copy|move) ", "", a)
            d = _defs_of(cb, local)
            mm = re.search(r"\(_1\.(\d+): ", d[0]) if len(d) == 1 else None
            # one more hop: `_4 = copy (*_5); _5 = copy (_1.1: &T)`
            if len(d) == 1 and not mm:
                m2 = re.search(r"= (?:copy|move) \(?\*?(_\d+)\)?;", d[0])
                if m2:
                    d2 = _defs_of(cb, m2.group(1))
                    mm = re.search(r"\(_1\.(\d+): ", d2[0]) if len(d2) == 1 else None
            if not mm:
                problems.append(("the close-error closure's %s argument is one of its captures" % role, "inconclusive", "%s: %s" % (clo, a)))
                continue
            fld[role] = int(mm.group(1))
        sites = [st for blk in body.blocks.values() for st in blk if re.match(r"^_\d+ = %s \{" % re.escape(clo), st)]
        for st in sites:
            nsites += 1
            ops = [f.split(":", 1)[1].strip() for f in st.split("{", 2)[2].rsplit("}", 1)[0].split(", ") if ":" in f]
            for role, call_re in (("namespace", r"BobState::namespace"), ("peer", r"iroh::endpoint::Connection::remote_id")):
                if role not in fld or fld[role] >= len(ops):
                    continue
                op = re.sub(r"^(copy|move) ", "", ops[fld[role]])
                ok, why = _trace_place(body, op, call_re)
                if ok is None:
                    problems.append(("the %s reported with a close error can be traced" % role, "inconclusive", "%s: %s" % (clo, why)))
                elif not ok:
                    problems.append(("a failure while closing an accepted session is reported with the document recorded in the session state (state.namespace()) and the connection's peer", "sat", "%s: %s comes from `%s`" % (clo, role, why)))
                elif role == "namespace":
                    state_places.add(re.sub(r"^(copy|move) ", "", why.strip()))
    # the outcome is taken from the same state object the namespace was read from
    outs = [st for blk in body.blocks.values() for st in blk if re.search(r"= BobState::into_outcome\(", st)]
    runs = [st for blk in body.blocks.values() for st in blk if re.search(r"BobState::run::<", st)]
    if len(outs) != 1 or not runs:
        problems.append(("handle_connection runs the session and takes its outcome from the state exactly once", "sat" if len(outs) != 1 else "inconclusive", "into_outcome calls=%d run calls=%d" % (len(outs), len(runs))))
    problems.sort(key=lambda p: p[1] == "inconclusive")
    return dict(name=name, property="C10", verdict=_verdict(problems), detail="close-error closures=%d, construction sites=%d; problems: %s" % (len(closers), nsites, problems[:3] or "none"),
                functions=[body.name] + sorted(b.name for b, _ in closers.values()), queries=nsites * 2, cases=nsites, witness="c10accept",
                check_message=(problems[0][0] if problems else "close errors of an accepted session name the session's document and peer"))


QUERIES_C10 = [q_c10_bob_steps, q_c10_alice_steps, q_c10_accept_report]
