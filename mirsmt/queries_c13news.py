"""E3 query for C13, semantic form (written after round-7 seed r7_c13_c, which rewrote the function as a lockstep walk):
c13_news_semantic — `Store::has_news_for_us` executed (PMExec) over K1 <= 3 (thorough tier: <= 4) of OUR head rows (as `get_latest_for_each_author`
  yields them: ascending by author, all Ok) and K2 <= 3 (thorough: <= 4) heads of the PEER's report (ascending by author, as a B-tree map iterates),
  authors and timestamps symbolic integers.  Whatever way the function computes it — by building our head set and asking
  `theirs.has_news_for(ours)` (answered here from the set that was actually built: the law of `has_news_for` itself is
  c13_heads_news) or by walking both sequences — on every feasible path that succeeds the answer is
      NonZeroU64::new(#{ j : no row of ours has author = theirs_j.author and timestamp >= theirs_j.timestamp })
  asked of z3 and cvc5 per path (author order types are path conditions: the comparisons fork).  A failing
  `get_latest_for_each_author` is reported."""
import re

from mirsmt import Smt, solve, mk_deref, mk_v2b, split_sexpr_args
from stdmodels import PMExec, Inconclusive, std_models, _deep, seq_next
from queries_c05 import _find

THOROUGH = __import__("os").environ.get("VERIF_E3_TIER", "quick") == "thorough"
KS = (0, 1, 2, 3, 4) if THOROUGH else (0, 1, 2, 3)   # rows of ours / heads of theirs per run


def _spec(K1, K2):
    terms = []
    for j in range(K2):
        known = ["(and (= (toint OA%d) (toint TA%d)) (>= (toint OT%d) (toint TT%d)))" % (i, j, i, j) for i in range(K1)]
        terms.append("(ite (or false %s) 0 1)" % " ".join(known))
    return "(+ 0 0 %s)" % " ".join(terms)


def q_c13_news_semantic(bodies):
    name = "c13_news_semantic"
    hits = _find(bodies, r"^store::fs::<impl at [^>]*>::has_news_for_us$")
    if len(hits) != 1:
        return dict(name=name, property="C13", verdict="inconclusive", detail="has_news_for_us not found uniquely (%d)" % len(hits), functions=[])
    body = hits[0]
    problems, nq, ncases, funcs, succ = [], 0, 0, set(), 0
    for K1 in KS:
        for K2 in KS:
            smt = Smt()
            for f, n in (("C_Ok", 1), ("C_Err", 1), ("C_Some", 1), ("C_Continue", 1), ("C_Break", 1), ("C_seq", 1), ("C_tuple2", 2), ("C_tuple3", 3), ("discr", 1), ("conv", 1), ("HSET", 1), ("mk_tuple2", 2)):
                smt.fun(f, n)
            smt.fun("C_None", 0)
            smt.decls.append("(declare-fun toint (V) Int)")
            smt.decls.append("(declare-fun nz (Int) V)")
            for c in ["STORE", "NS", "THEIRS", "UNIT", "LERR"] + ["OA%d" % i for i in range(K1)] + ["OT%d" % i for i in range(K1)] + ["OK%d" % i for i in range(K1)] + \
                     ["TA%d" % j for j in range(K2)] + ["TT%d" % j for j in range(K2)]:
                smt.decls.append("(declare-const %s V)" % c)
            smt.decls.append("(declare-const latest_ok Bool)")
            for i in range(K1 - 1):
                smt.asserts.append("(< (toint OA%d) (toint OA%d))" % (i, i + 1))
            for j in range(K2 - 1):
                smt.asserts.append("(< (toint TA%d) (toint TA%d))" % (j, j + 1))
            for t in ["OT%d" % i for i in range(K1)] + ["TT%d" % j for j in range(K2)]:
                smt.asserts.append("(>= (toint %s) 0)" % t)
            models = {}

            def m_latest(ex, v, env, K1=K1):
                s = ex.new_seq(env, ["(C_Ok (C_tuple3 OA%d OT%d OK%d))" % (i, i, i) for i in range(K1)])
                return [("latest_ok", "(C_Ok %s)" % s), ("(not latest_ok)", "(C_Err LERR)")]
            m_latest.wants_env = True

            def m_next(ex, v, env):
                it = seq_next(ex, env, v[0])
                return "C_None" if it is None else "(C_Some %s)" % it
            m_next.wants_env = True

            def m_theirs_iter(ex, v, env, K2=K2):
                if _deep(ex, env, v[0]) != "THEIRS":
                    raise Inconclusive("iter of %s" % v[0][:60])
                return ex.new_seq(env, ["(C_tuple2 (ref TA%d) (ref TT%d))" % (j, j) for j in range(K2)])
            m_theirs_iter.wants_env = True

            def m_default(ex, v, env):
                ex.nset = getattr(ex, "nset", 0) + 1
                ident = ex._konst("int_%d" % (800 + ex.nset))
                env["__hset_%s" % ident] = ()
                return "(HSET %s)" % ident
            m_default.wants_env = True

            def hset(ex, env, t):
                d = _deep(ex, env, t)
                if not d.startswith("(HSET "):
                    raise Inconclusive("not a head set built here: %s" % d[:60])
                return split_sexpr_args(d)[0]

            def m_insert(ex, v, env):
                ident = hset(ex, env, v[0])
                env["__hset_%s" % ident] = env["__hset_%s" % ident] + ((_deep(ex, env, v[1]), _deep(ex, env, v[2])),)
                return "UNIT"
            m_insert.wants_env = True

            def m_has_news_for(ex, v, env, K2=K2):
                # theirs.has_news_for(ours): the number of THEIR heads that OURS (the set that was built) lacks or knows older
                if _deep(ex, env, v[0]) != "THEIRS":
                    raise Inconclusive("has_news_for on %s" % v[0][:60])
                rows = env["__hset_%s" % hset(ex, env, v[1])]
                terms = []
                for j in range(K2):
                    known = ["(and (= (toint %s) (toint TA%d)) (>= (toint %s) (toint TT%d)))" % (a, j, t, j) for a, t in rows]
                    terms.append("(ite (or false %s) 0 1)" % " ".join(known))
                env["__log"] = env.get("__log", ()) + (("has_news_for", len(rows)),)
                return "(nz (+ 0 0 %s))" % " ".join(terms)
            m_has_news_for.wants_env = True

            def m_transpose(ex, v, env):
                x = _deep(ex, env, v[0])
                if x == "C_None":
                    return "(C_Ok C_None)"
                if x.startswith("(C_Some "):
                    inner = split_sexpr_args(x)[0]
                    if inner.startswith("(C_Ok "):
                        return "(C_Ok (C_Some %s))" % split_sexpr_args(inner)[0]
                    if inner.startswith("(C_Err "):
                        return inner
                raise Inconclusive("transpose of %s" % x[:60])
            m_transpose.wants_env = True

            def cmp_(op):
                def f(ex, v, env):
                    return "(b2v (%s (toint %s) (toint %s)))" % (op, _deep(ex, env, v[0]), _deep(ex, env, v[1]))
                f.wants_env = True
                return f

            def m_unwrap_or(ex, v, env):
                x = _deep(ex, env, v[0])
                if x == "C_None":
                    return v[1]
                if x.startswith("(C_Some "):
                    return split_sexpr_args(x)[0]
                raise Inconclusive("unwrap_or of %s" % x[:60])
            m_unwrap_or.wants_env = True

            def m_nz_new(ex, v, env):
                x = v[0]
                m = re.match(r"^k_(\d+)_u64$", x)
                return "(nz %s)" % (m.group(1) if m else "(toint %s)" % x)
            m_nz_new.wants_env = True
            models.update({
                r"^store::fs::Store::get_latest_for_each_author$": m_latest,
                r"^<LatestIterator<'_> as Iterator>::next$|^<std::collections::btree_map::Iter<'_, keys::AuthorId, u64> as Iterator>::next$": m_next,
                r"^<LatestIterator<'_> as IntoIterator>::into_iter$|^<std::collections::btree_map::Iter<'_, keys::AuthorId, u64> as IntoIterator>::into_iter$": lambda ex, v: v[0],
                r"^heads::AuthorHeads::iter$": m_theirs_iter,
                r"^<heads::AuthorHeads as std::default::Default>::default$": m_default,
                r"^heads::AuthorHeads::insert$": m_insert,
                r"^heads::AuthorHeads::has_news_for$": m_has_news_for,
                r"^(std::option::)?Option::<Result<.*>>::transpose$": m_transpose,
                r"^<keys::AuthorId as PartialOrd>::lt$": cmp_("<"),
                r"^<keys::AuthorId as PartialOrd>::le$": cmp_("<="),
                r"^<keys::AuthorId as PartialOrd>::gt$": cmp_(">"),
                r"^<keys::AuthorId as PartialOrd>::ge$": cmp_(">="),
                r"^<keys::AuthorId as PartialEq>::eq$": cmp_("="),
                r"^<keys::AuthorId as PartialEq>::ne$": cmp_("distinct"),
                r"^(std::option::)?Option::<bool>::unwrap_or$": m_unwrap_or,
                r"^NonZero::<u64>::new$": m_nz_new,
                r" as FromResidual<.*>>::from_residual$": lambda ex, v: "(C_Err (conv %s))" % (split_sexpr_args(v[0])[0] if v[0].startswith("(C_Err ") else v[0]),
            })
            for k, f in std_models().items():
                models.setdefault(k, f)

            class NExec(PMExec):
                def rvalue(self, env, rv):
                    ma = re.match(r"^(AddWithOverflow|Add)\((.+)\)$", rv.strip())
                    if ma:
                        a, b = [self.operand(env, x) for x in self.split_args(ma.group(2))]
                        ka, kb = re.match(r"^k_(\d+)_u64$", a), re.match(r"^k_(\d+)_u64$", b)
                        if ka and kb:
                            val = self._konst("%d_u64" % (int(ka.group(1)) + int(kb.group(1))))
                            return "(mk_tuple2 %s (b2v false))" % val if ma.group(1) == "AddWithOverflow" else val
                    m = re.match(r"^(Gt|Ge|Lt|Le|Eq|Ne)\((.+)\)$", rv.strip())
                    if m:
                        a, b = [self.operand(env, x) for x in self.split_args(m.group(2))]
                        if re.match(r"^\(?(OT|TT|OA|TA)\d", a.lstrip("(").replace("deref ", "")) or re.match(r"^(OT|TT|OA|TA)\d", b):
                            op = {"Gt": ">", "Ge": ">=", "Lt": "<", "Le": "<=", "Eq": "=", "Ne": "distinct"}[m.group(1)]
                            return "(b2v (%s (toint %s) (toint %s)))" % (op, a, b)
                    return super().rvalue(env, rv)
            ex = NExec(bodies, smt, models=models, max_paths=3000, max_depth=20000)
            try:
                paths = ex.run(body, ["STORE", "NS", "(ref THEIRS)"], feasibility=False)
            except (Inconclusive, ValueError, AssertionError, KeyError, IndexError, RecursionError) as e:
                problems.append(("Store::has_news_for_us can be followed", "inconclusive", "K1=%d K2=%d %r" % (K1, K2, e)))
                continue
            funcs |= ex.inlined
            for pc, ret, calls, env in paths:
                nq += 1
                v, _ = solve(smt.script("(and true %s)" % " ".join(pc)))
                if v == "unsat":
                    continue
                if v != "sat":
                    problems.append(("feasibility of a path", "inconclusive", "K1=%d K2=%d" % (K1, K2)))
                    continue
                ncases += 1
                tag = "our rows=%d their heads=%d path=%s" % (K1, K2, [c[:50] for c in pc][:5])
                if "(not latest_ok)" in pc:
                    if not ret.startswith("(C_Err"):
                        problems.append(("a failing read of our heads is reported", "sat", tag))
                    continue
                if ret == "PANIC":
                    problems.append(("has_news_for_us does not panic", "sat", tag + " %s" % (env.get("__panic"),)))
                    continue
                if not ret.startswith("(C_Ok (nz "):
                    problems.append(("the answer is NonZeroU64::new(number of their heads that are news to us)", "inconclusive", tag + " ret=%s" % ret[:80]))
                    continue
                succ += 1
                got = split_sexpr_args(split_sexpr_args(ret)[0])[0]
                nq += 1
                v, _ = solve(smt.script("(and true %s (not (= %s %s)))" % (" ".join(pc), got, _spec(K1, K2))))
                if v != "unsat":
                    problems.append(("news is counted exactly for their authors we do not know or know with a strictly older timestamp", v, tag + " got=%s" % got[:120]))
    if succ < 9:
        problems.append(("every (our rows, their heads) size is decided", "inconclusive", "%d successful paths" % succ))
    problems.sort(key=lambda p: p[1] == "inconclusive")
    verdict = "violated" if any(p[1] == "sat" for p in problems) else ("inconclusive" if problems else "holds")
    return dict(name=name, property="C13", verdict=verdict, detail="feasible paths=%d (successful %d); problems: %s" % (ncases, succ, problems[:3] or "none"),
                functions=sorted(funcs) + ["Store::get_latest_for_each_author (rows ascending by author: c13_heads_api), AuthorHeads::has_news_for (answered from the set actually built; its own law: c13_heads_news)"],
                queries=nq, cases=ncases, witness="c13newsus",
                check_message=(problems[0][0] if problems else "has_news_for_us counts exactly the news"))


QUERIES_C13NEWS = [q_c13_news_semantic]
