"""E3 queries for the C11 glue of src/engine/live.rs, executed from the REAL coroutine MIR (Exec2), every
path, with every `.await` answered Ready (the handlers are straight-line between awaits; what is decided
is which state transition each way a session can end leads to, not scheduling):

  connect_finished : a dial that was declined with AlreadySyncing frees the slot with abort_connect(ns, peer);
                     EVERY other way a dial can end (success, any other decline, connect/sync/close errors)
                     is handed to on_sync_finished(ns, peer, Origin::Connect(reason), result).
  accept_finished  : Ok(fin) => on_sync_finished(fin.namespace, fin.peer, Origin::Accept, Ok(fin));
                     a request WE declined with AlreadySyncing changes nothing; every other error that
                     names peer and document => on_sync_finished(ns, peer, Origin::Accept, Err);
                     an error before the request was read (no document) changes nothing.
  on_sync_finished : calls state.finish(&ns, peer, &origin, result) exactly once on every path, whatever the
                     result and whatever the bookkeeping around it answers; when finish reports
                     resync = true exactly one follow-up dial sync_with_peer(ns, peer, Resync) is made, when it
                     reports false (or the state was not running) none.
  sync_with_peer   : a connect task is spawned iff state.start_connect(&ns, peer, reason) granted the slot.
  accept_sync_request : the answer is state.accept_request(own id, &ns, peer), unchanged.
The transition functions themselves (`PeerState`) are decided by the Kani harnesses c11_*.
"""
import re

from mirsmt import Smt, solve, mk_deref, mk_v2b, split_sexpr_args
from exec2 import Exec2, is_addr
from queries_c05 import _find, _enum_variants, _src
from queries_ins import _tracing_off


def _deep(ex, env, t):
    for _ in range(8):
        if is_addr(t):
            t = ex.load(env, t, whole=False)
        elif t.startswith("(ref "):
            t = mk_deref(t)
        else:
            break
    return t


def _base_models(smt):
    for f, n in (("C_Ok", 1), ("C_Err", 1), ("C_Some", 1), ("C_None", 0), ("C_Continue", 1), ("C_Break", 1), ("CE_Poll_Ready", 1), ("CE_Poll_Pending", 0), ("out", 1),
                 ("discr", 1), ("C_pin", 1), ("C_fut", 2), ("C_tuple2", 2)):
        smt.fun(f, n)
    for c in ("CORO", "CX", "LOGLVL", "UNIT", "SELF", "NS", "PEER", "REASON", "ORIGIN", "RESULT", "FIN", "STARTED", "RESYNC"):
        smt.decls.append("(declare-const %s V)" % c)
    models = _tracing_off()
    models.update({
        r"^Pin::<&mut .*>::new_unchecked$": lambda ex, v: v[0],
        r"as IntoFuture>::into_future$": lambda ex, v: v[0],
        r"as Future>::poll$": lambda ex, v: "(CE_Poll_Ready (out %s))" % v[0],
    })
    return models


def _mk_exec(bodies, smt, models, enums):
    e = dict(enums)
    e["Poll"] = ["Ready", "Pending"]
    ex = Exec2(bodies, smt, models=models, enums=e, max_paths=6000)
    ex.discr_of["(deref CORO)"] = 0
    for i, l in enumerate(["TRACE", "DEBUG", "INFO", "WARN", "ERROR"]):
        ex.discr_of["(fld_0 k_tracing__Level__%s)" % l] = i
    return ex


def _upvars(body):
    """name -> field index of the unresumed coroutine, from the body's debug info"""
    out = {}
    for var, expr in body.debug.items():
        m = re.match(r"^\(\(\*_\d+\)\.(\d+): ", expr)
        if m:
            out[var] = m.group(1)
    return out


def _run(ex, body, heap0):
    res = []
    ex._walk(body, "bb0", {"__heap": dict(heap0), "_1": "(C_pin CORO)", "_2": "CX"}, [], [], res, 0)
    return res


def _verdict(problems):
    if any(p[1] != "inconclusive" for p in problems):
        return "violated"
    if problems:
        return "inconclusive"
    return "holds"


def _enum_term(enum, var, fields, nfields):
    if nfields == 0:
        return "CE_%s_%s" % (enum, var)
    return "(CE_%s_%s %s)" % (enum, var, " ".join(fields))


def q_c11_connect_finished(bodies):
    name = "c11_connect_finished"
    hits = _find(bodies, r"on_sync_via_connect_finished::\{closure#0\}::\{closure#0\}$", r"Poll<\(\)>")
    net = _src("src/net.rs")
    ce, ar = _enum_variants(net, "ConnectError"), _enum_variants(net, "AbortReason")
    if len(hits) != 1 or not ce or not ar or "AlreadySyncing" not in dict(ar) or "RemoteAbort" not in dict(ce):
        return dict(name=name, property="C11", verdict="inconclusive", detail="handler / enums not found (%d)" % len(hits), functions=[])
    body = hits[0]
    up = _upvars(body)
    if any(v not in up for v in ("result", "reason", "self", "namespace", "peer")):
        return dict(name=name, property="C11", verdict="inconclusive", detail="captured variables not recognised: %s" % up, functions=[body.name])
    enums = {"ConnectError": [v for v, _ in ce], "AbortReason": [v for v, _ in ar], "Origin": ["Connect", "Accept"]}
    cases = [("ok", "(C_Ok FIN)")]
    for v, f in ce:
        if v == "RemoteAbort":
            for a, _ in ar:
                cases.append(("RemoteAbort(%s)" % a, "(C_Err (CE_ConnectError_RemoteAbort CE_AbortReason_%s))" % a))
        else:
            cases.append((v, "(C_Err %s)" % _enum_term("ConnectError", v, ["ERRPAYLOAD"] * max(1, len(f)), max(1, len(f)))))
    problems, nq, ncases = [], 0, 0
    for label, rterm in cases:
        smt = Smt()
        models = _base_models(smt)
        smt.decls.append("(declare-const ERRPAYLOAD V)")
        for v, f in ce:
            smt.fun("CE_ConnectError_%s" % v, max(1, len(f)))
        for a, _ in ar:
            smt.fun("CE_AbortReason_%s" % a, 0)
        smt.fun("CE_Origin_Connect", 1)
        smt.fun("CE_Origin_Accept", 0)
        smt.fun("map_err", 1)
        rec = {}

        def m_abort(ex, v, env, rec=rec):
            rec.setdefault("abort", []).append((_deep(ex, env, v[1]), _deep(ex, env, v[2])))
            return "UNIT"
        m_abort.wants_env = True

        def m_finished(ex, v, env, rec=rec):
            rec.setdefault("finished", []).append([_deep(ex, env, x) for x in v[1:]])
            return "(C_fut on_sync_finished UNIT)"
        m_finished.wants_env = True
        smt.decls.append("(declare-const on_sync_finished V)")
        models.update({
            r"^NamespaceStates::abort_connect$": m_abort,
            r"^LiveActor::on_sync_finished$": m_finished,
            r"^Result::<SyncFinished, net::ConnectError>::map_err::<": lambda ex, v: v[0] if v[0].startswith("(C_Ok ") else "(C_Err (map_err %s))" % split_sexpr_args(v[0])[0],
            r"^NamespaceStates::(finish|start_connect|accept_request|set_sync_running)$": lambda ex, v: (_ for _ in ()).throw(ValueError("the handler changes the sync state directly")),
        })
        ex = _mk_exec(bodies, smt, models, enums)
        heap0 = {("CORO", up["result"]): rterm, ("CORO", up["reason"]): "REASON", ("CORO", up["self"]): "SELF", ("CORO", up["namespace"]): "NS", ("CORO", up["peer"]): "PEER"}
        try:
            paths = _run(ex, body, heap0)
        except (ValueError, AssertionError, KeyError, IndexError, RecursionError) as e:
            problems.append(("the handler can be followed for every way a dial ends", "sat" if "directly" in str(e) else "inconclusive", "%s: %r" % (label, e)))
            continue
        for pc, ret, calls, env in paths:
            nq += 1
            v, _ = solve(smt.script("(and true %s)" % " ".join(pc)))
            if v == "unsat":
                continue
            ncases += 1
            ab = [(_deep(ex, env, c[1][1]), _deep(ex, env, c[1][2])) for c in calls if re.search(r"^NamespaceStates::abort_connect$", c[0])]
            fin = [[_deep(ex, env, x) for x in c[1][1:]] for c in calls if re.search(r"^LiveActor::on_sync_finished$", c[0])]
            tag = "dial ended with %s" % label
            if label == "RemoteAbort(AlreadySyncing)":
                if fin or ab != [("NS", "PEER")]:
                    problems.append(("a dial declined with AlreadySyncing frees the dialer's slot (abort_connect) and nothing else", "sat", tag + " abort=%s finished=%d" % (ab, len(fin))))
                continue
            want_res = rterm if label == "ok" else "(C_Err (map_err %s))" % split_sexpr_args(rterm)[0]
            if ab or len(fin) != 1 or fin[0] != ["NS", "PEER", "(CE_Origin_Connect REASON)", want_res]:
                problems.append(("every other way a dial ends (success, NotFound / InternalServerError declines, connect, sync and close errors) is handed to on_sync_finished(ns, peer, Connect(reason), result), which finishes the sync state",
                                 "sat", tag + " abort=%s finished=%s" % (ab, [f[:3] for f in fin])))
    problems.sort(key=lambda p: p[1] == "inconclusive")  # a confirmed problem names the check
    return dict(name=name, property="C11", verdict=_verdict(problems), detail="ways a dial can end: %d; feasible paths=%d; problems: %s" % (len(cases), ncases, problems[:3] or "none"),
                functions=[body.name], queries=nq, cases=ncases, witness="c11live",
                check_message=(problems[0][0] if problems else "every way a dial ends finishes or frees the dialer's sync state"))


def q_c11_accept_finished(bodies):
    name = "c11_accept_finished"
    hits = _find(bodies, r"on_sync_via_accept_finished::\{closure#0\}::\{closure#0\}$", r"Poll<\(\)>")
    net = _src("src/net.rs")
    ae, ar = _enum_variants(net, "AcceptError"), _enum_variants(net, "AbortReason")
    if len(hits) != 1 or not ae or not ar:
        return dict(name=name, property="C11", verdict="inconclusive", detail="handler / enums not found (%d)" % len(hits), functions=[])
    body = hits[0]
    up = _upvars(body)
    if any(v not in up for v in ("res", "self")):
        return dict(name=name, property="C11", verdict="inconclusive", detail="captured variables not recognised: %s" % up, functions=[body.name])
    aed = dict(ae)
    enums = {"AcceptError": [v for v, _ in ae], "AbortReason": [v for v, _ in ar], "Origin": ["Connect", "Accept"]}
    # SyncFinished { namespace, peer, outcome, timings }
    m = re.search(r"pub struct SyncFinished \{(.*?)\n\}", net, re.S)
    sff = re.findall(r"pub (\w+):", m.group(1)) if m else []
    if sff[:2] != ["namespace", "peer"]:
        return dict(name=name, property="C11", verdict="inconclusive", detail="SyncFinished layout changed: %s" % sff, functions=[body.name])
    cases = [("ok", "(C_Ok (C_fin FNS FPEER FOUT FTIM))", ("FNS", "FPEER"))]
    for v, f in ae:
        if v == "Abort":
            for a, _ in ar:
                vals = {"peer": "EPEER", "namespace": "ENS", "reason": "CE_AbortReason_%s" % a}
                cases.append(("Abort(%s)" % a, "(C_Err (CE_AcceptError_Abort %s))" % " ".join(vals[x] for x in f), None if a == "AlreadySyncing" else ("ENS", "EPEER")))
        elif "namespace" in f:
            for nsopt, lab in (("(C_Some ENS)", "document known"), ("C_None", "before the request was read")):
                vals = {"peer": "EPEER", "namespace": nsopt, "error": "EERR"}
                cases.append(("%s (%s)" % (v, lab), "(C_Err (CE_AcceptError_%s %s))" % (v, " ".join(vals[x] for x in f)), ("ENS", "EPEER") if nsopt != "C_None" else None))
        else:
            vals = {"peer": "EPEER", "error": "EERR"}
            cases.append((v, "(C_Err (CE_AcceptError_%s %s))" % (v, " ".join(vals[x] for x in f)), None))
    problems, nq, ncases = [], 0, 0
    inline = [(r"^net::AcceptError::peer$", r"^net::<impl at [^>]*>::peer$", r"AcceptError"), (r"^net::AcceptError::namespace$", r"^net::<impl at [^>]*>::namespace$", r"AcceptError")]
    for label, rterm, want in cases:
        smt = Smt()
        models = _base_models(smt)
        for c in ("FNS", "FPEER", "FOUT", "FTIM", "EPEER", "ENS", "EERR", "on_sync_finished"):
            smt.decls.append("(declare-const %s V)" % c)
        smt.fun("C_fin", 4)
        for v, f in ae:
            smt.fun("CE_AcceptError_%s" % v, len(f))
        for a, _ in ar:
            smt.fun("CE_AbortReason_%s" % a, 0)
        smt.fun("CE_Origin_Connect", 1)
        smt.fun("CE_Origin_Accept", 0)
        smt.fun("anyhow_from", 1)

        def m_eq(ex, v, env):
            a, b = _deep(ex, env, v[0]), _deep(ex, env, v[1])
            if a.startswith("CE_AbortReason_") and b.startswith("CE_AbortReason_"):
                return "(b2v %s)" % ("true" if a == b else "false")
            return "(b2v (= %s %s))" % (a, b)
        m_eq.wants_env = True

        def m_copy(ex, v, env):
            return _deep(ex, env, v[0])
        m_copy.wants_env = True
        models.update({
            r"^LiveActor::on_sync_finished$": lambda ex, v: "(C_fut on_sync_finished UNIT)",
            r"^<(net::)?AbortReason as PartialEq>::eq$": m_eq,
            r"^<anyhow::Error as From<net::AcceptError>>::from$": lambda ex, v: "(anyhow_from %s)" % v[0],
            r"^NamespaceStates::(finish|start_connect|accept_request|abort_connect|set_sync_running)$": lambda ex, v: (_ for _ in ()).throw(ValueError("the handler changes the sync state directly")),
            r"as Clone>::clone$|as ToOwned>::to_owned$": m_copy,
        })
        ex = _mk_exec(bodies, smt, models, enums)
        heap0 = {("CORO", up["res"]): rterm, ("CORO", up["self"]): "SELF"}
        try:
            ex.inline_rules = inline
            paths = _run(ex, body, heap0)
        except (ValueError, AssertionError, KeyError, IndexError, RecursionError) as e:
            problems.append(("the handler can be followed for every way an accepted session ends", "sat" if "directly" in str(e) else "inconclusive", "%s: %r" % (label, e)))
            continue
        for pc, ret, calls, env in paths:
            nq += 1
            v, _ = solve(smt.script("(and true %s)" % " ".join(pc)))
            if v == "unsat":
                continue
            ncases += 1
            fin = [[_deep(ex, env, x) for x in c[1][1:]] for c in calls if re.search(r"^LiveActor::on_sync_finished$", c[0])]
            tag = "accepted session ended with %s" % label
            if want is None:
                if fin:
                    problems.append(("a request we declined as AlreadySyncing, or a failure before any request was read, does not touch the sync state", "sat", tag + " finished=%s" % [f[:3] for f in fin]))
                continue
            ok = len(fin) == 1 and fin[0][0] == want[0] and fin[0][1] == want[1] and fin[0][2] == "CE_Origin_Accept"
            if ok:
                r = fin[0][3]
                ok = (r == rterm) if label == "ok" else r.startswith("(C_Err ")
            if not ok:
                problems.append(("a finished or failed accepted session is handed to on_sync_finished(namespace, peer, Accept, result), which finishes the sync state", "sat", tag + " finished=%s" % [f[:4] for f in fin]))
    problems.sort(key=lambda p: p[1] == "inconclusive")  # a confirmed problem names the check
    return dict(name=name, property="C11", verdict=_verdict(problems), detail="ways an accepted session can end: %d; feasible paths=%d; problems: %s" % (len(cases), ncases, problems[:3] or "none"),
                functions=[body.name, "net::AcceptError::{peer,namespace}"], queries=nq, cases=ncases, witness="c11live",
                check_message=(problems[0][0] if problems else "every way an accepted session ends finishes the acceptor's sync state"))


def q_c11_on_sync_finished(bodies):
    name = "c11_on_sync_finished"
    hits = _find(bodies, r"^live::<impl at [^>]*>::on_sync_finished::\{closure#0\}$", r"Poll<\(\)>")
    if len(hits) != 1:
        return dict(name=name, property="C11", verdict="inconclusive", detail="handler not found (%d)" % len(hits), functions=[])
    body = hits[0]
    st = _enum_variants(_src("src/engine/state.rs"), "SyncReason")
    if not st or "Resync" not in dict(st):
        return dict(name=name, property="C11", verdict="inconclusive", detail="SyncReason not found", functions=[body.name])
    problems, nq, ncases = [], 0, 0
    for rlabel, rterm in (("Ok", "(C_Ok FIN)"), ("Err", "(C_Err ERRV)")):
        smt = Smt()
        models = _base_models(smt)
        smt.decls.append("(declare-const ERRV V)")
        smt.decls.append("(declare-const fin_some Bool)")
        for v, _ in st:
            smt.fun("CE_SyncReason_%s" % v, 0)

        def m_finish(ex, v, env):
            env["__finish"] = env.get("__finish", ()) + (tuple(_deep(ex, env, x) for x in v[1:]),)
            return [("fin_some", "(C_Some (C_tuple2 STARTED RESYNC))"), ("(not fin_some)", "C_None")]
        m_finish.wants_env = True

        def m_swp(ex, v, env):
            env["__dial"] = env.get("__dial", ()) + (tuple(_deep(ex, env, x) for x in v[1:]),)
            return "UNIT"
        m_swp.wants_env = True

        def m_other(ex, v, env):
            env["__other"] = env.get("__other", ()) + (1,)
            return "UNIT"
        m_other.wants_env = True
        models.update({
            r"^NamespaceStates::finish$": m_finish,
            r"^LiveActor::sync_with_peer$": m_swp,
            r"^NamespaceStates::(start_connect|accept_request|abort_connect|set_sync_running|remove|insert)$": m_other,
        })
        ex = _mk_exec(bodies, smt, models, {"SyncReason": [v for v, _ in st]})
        # upvars in parameter order: self, namespace, peer, origin, result
        heap0 = {("CORO", "0"): "SELF", ("CORO", "1"): "NS", ("CORO", "2"): "PEER", ("CORO", "3"): "ORIGIN", ("CORO", "4"): rterm}
        try:
            paths = _run(ex, body, heap0)
        except (ValueError, AssertionError, KeyError, IndexError, RecursionError) as e:
            problems.append(("the handler can be followed", "inconclusive", "%s: %r" % (rlabel, e)))
            continue
        for pc, ret, calls, env in paths:
            pcs = "(and true %s)" % " ".join(pc)
            nq += 1
            v, _ = solve(smt.script(pcs))
            if v == "unsat":
                continue
            ncases += 1
            fins = env.get("__finish", ())
            dials = env.get("__dial", ())
            tag = "result=%s" % rlabel
            if env.get("__other"):
                problems.append(("on_sync_finished changes the sync state only through finish", "sat", tag))
                continue
            if len(fins) != 1 or fins[0][0] != "NS" or fins[0][1] != "PEER" or fins[0][2] != "ORIGIN" or fins[0][3] != rterm:
                problems.append(("whatever the result, the session is finished exactly once in the sync state: finish(&namespace, peer, &origin, result)", "sat", tag + " finish=%s" % (fins,)))
                continue
            if "(not fin_some)" in pc:
                if dials:
                    problems.append(("no follow-up dial when the state was not running", "sat", tag))
                continue
            # fin_some: dial <=> RESYNC
            resync = mk_v2b("RESYNC")
            if dials:
                if len(dials) != 1 or dials[0] != ("NS", "PEER", "CE_SyncReason_Resync"):
                    problems.append(("the follow-up dial is sync_with_peer(namespace, peer, Resync), once", "sat", tag + " dials=%s" % (dials,)))
                    continue
                goal = "(and %s (not %s))" % (pcs, resync)
            else:
                goal = "(and %s %s)" % (pcs, resync)
            nq += 1
            v, _ = solve(smt.script(goal))
            if v != "unsat":
                problems.append(("a refused report (resync flag) leads to exactly one follow-up dial when the session finishes, successful or not; no flag, no dial", v, tag + " dials=%d" % len(dials)))
    problems.sort(key=lambda p: p[1] == "inconclusive")  # a confirmed problem names the check
    return dict(name=name, property="C11", verdict=_verdict(problems), detail="feasible paths=%d; problems: %s" % (ncases, problems[:3] or "none"),
                functions=[body.name], queries=nq, cases=ncases, witness="c11live",
                check_message=(problems[0][0] if problems else "on_sync_finished finishes the state once and re-dials iff a report was refused"))


def q_c11_dial_and_accept(bodies):
    name = "c11_dial_and_accept"
    sw = _find(bodies, r"^live::<impl at [^>]*>::sync_with_peer$", r"LiveActor")
    ac = _find(bodies, r"^live::<impl at [^>]*>::accept_sync_request$", r"LiveActor")
    if len(sw) != 1 or len(ac) != 1:
        return dict(name=name, property="C11", verdict="inconclusive", detail="bodies not found (%d, %d)" % (len(sw), len(ac)), functions=[])
    problems, nq, ncases = [], 0, 0
    # ---- sync_with_peer
    smt = Smt()
    models = _base_models(smt)
    smt.decls.append("(declare-const granted Bool)")
    smt.decls.append("(declare-const OUTCOME V)")

    def m_start(ex, v, env):
        env["__start"] = env.get("__start", ()) + (tuple(_deep(ex, env, x) for x in v[1:]),)
        return [("granted", "(b2v true)"), ("(not granted)", "(b2v false)")]
    m_start.wants_env = True

    def m_spawn(ex, v, env):
        env["__spawn"] = env.get("__spawn", ()) + (v[1],)
        return "UNIT"
    m_spawn.wants_env = True
    models.update({
        r"^NamespaceStates::start_connect$": m_start,
        r"JoinSet::<.*>::spawn::<": m_spawn,
        r"^NamespaceStates::(finish|accept_request|abort_connect)$": lambda ex, v: (_ for _ in ()).throw(ValueError("unexpected state change")),
    })
    ex = _mk_exec(bodies, smt, models, {})
    try:
        paths = ex.run(sw[0], ["SELF", "NS", "PEER", "REASON"], feasibility=False)
    except (ValueError, AssertionError, KeyError, IndexError, RecursionError) as e:
        paths = []
        problems.append(("sync_with_peer can be followed", "sat" if "unexpected" in str(e) else "inconclusive", repr(e)))
    for pc, ret, calls, env in paths:
        nq += 1
        v, _ = solve(smt.script("(and true %s)" % " ".join(pc)))
        if v == "unsat":
            continue
        ncases += 1
        starts, spawns = env.get("__start", ()), env.get("__spawn", ())
        if len(starts) != 1 or starts[0] != ("NS", "PEER", "REASON"):
            problems.append(("a dial first asks the sync state for the slot: start_connect(&namespace, peer, reason)", "sat", "starts=%s" % (starts,)))
            continue
        if ("granted" in pc) != (len(spawns) == 1) or len(spawns) > 1:
            problems.append(("a connect task is spawned exactly when the sync state granted the slot", "sat", "granted=%s spawns=%d" % ("granted" in pc, len(spawns))))
            continue
        if spawns and not all(x in spawns[0] for x in ("NS", "PEER", "REASON")):
            problems.append(("the spawned task dials the same document and peer and carries the reason back", "sat", spawns[0][:120]))
    # ---- accept_sync_request
    smt2 = Smt()
    models2 = _base_models(smt2)
    smt2.decls.append("(declare-const OUTCOME V)")
    smt2.decls.append("(declare-const MYID V)")
    rec = {}

    def m_accept(ex, v, env):
        rec.setdefault("args", []).append(tuple(_deep(ex, env, x) for x in v[1:]))
        return "OUTCOME"
    m_accept.wants_env = True
    models2.update({
        r"^NamespaceStates::accept_request$": m_accept,
        r"^(iroh::)?Endpoint::id$": lambda ex, v: "MYID",
        r"^NamespaceStates::(finish|start_connect|abort_connect)$": lambda ex, v: (_ for _ in ()).throw(ValueError("unexpected state change")),
    })
    ex2 = _mk_exec(bodies, smt2, models2, {})
    try:
        paths2 = ex2.run(ac[0], ["SELF", "NS", "PEER"], feasibility=False)
    except (ValueError, AssertionError, KeyError, IndexError, RecursionError) as e:
        paths2 = []
        problems.append(("accept_sync_request can be followed", "sat" if "unexpected" in str(e) else "inconclusive", repr(e)))
    for pc, ret, calls, env in paths2:
        ncases += 1
        a = rec.get("args", [])
        if ret != "OUTCOME" or len(a) != 1 or a[0] != ("MYID", "NS", "PEER"):
            problems.append(("an incoming request is answered by the sync state: accept_request(own id, &namespace, peer), unchanged", "sat", "ret=%s args=%s" % (ret[:40], a)))
    problems.sort(key=lambda p: p[1] == "inconclusive")  # a confirmed problem names the check
    return dict(name=name, property="C11", verdict=_verdict(problems), detail="feasible paths=%d; problems: %s" % (ncases, problems[:3] or "none"),
                functions=[sw[0].name, ac[0].name], queries=nq, cases=ncases, witness="c11live",
                check_message=(problems[0][0] if problems else "dial and accept decisions are the sync state's"))


QUERIES_C11 = [q_c11_connect_finished, q_c11_accept_finished, q_c11_on_sync_finished, q_c11_dial_and_accept]
