"""E3 query for C12 over the REAL `Subscribers` (src/sync.rs): `send` (coroutine, with the async closure it maps over the
senders, run from their own MIR), `send_with`, `subscribe`, `unsubscribe` (with its `retain` predicate).

c12_subscribers — the subscriber list holds K <= 3 (thorough 4) senders T0.. ; whether each send succeeds (receiver alive)
  or fails (receiver dropped) is symbolic.  Decided on every path of `send(event)`:
    * every subscriber that was registered gets the event EXACTLY ONCE (one `Sender::send` with a clone of the event),
      whatever happens to the other subscribers;
    * afterwards the list holds exactly the subscribers whose send succeeded (a dropped receiver is forgotten, nobody else is);
  `send_with(f)`: with no subscriber the event is not even built; otherwise `send(f())`, once;
  `subscribe` appends the sender; `unsubscribe(s)` removes exactly the entries that are the same channel as `s`.
Vec / iterator adaptors / join_all are modelled as sequences (stdmodels); async_channel's send is a symbolic ok / closed.
"""
import itertools
import os
import re

from mirsmt import Smt, solve, mk_deref, mk_v2b, split_sexpr_args
from exec2 import is_addr
from stdmodels import PMExec, Inconclusive, std_models, _deep, force, run_all_coroutines, run_closure, conj
from queries_c05 import _find, _src

THOROUGH = os.environ.get("VERIF_E3_TIER", "quick") == "thorough"


def _verdict(problems):
    if any(p[1] != "inconclusive" for p in problems):
        return "violated"
    return "inconclusive" if problems else "holds"


def _setup(K):
    smt = Smt()
    for f, n in (("C_Ok", 1), ("C_Err", 1), ("C_Some", 1), ("C_None", 0), ("C_Continue", 1), ("C_Break", 1), ("CE_Poll_Ready", 1), ("CE_Poll_Pending", 0), ("C_seq", 1),
                 ("C_pin", 1), ("discr", 1), ("clone_of", 1), ("C_sendfut", 2), ("C_joinall", 1), ("C_selffut", 2), ("send_err", 1), ("call_f", 1)):
        smt.fun(f, n)
    for c in ("CORO", "CX", "SUBS", "EVENT", "UNIT", "FCLOSURE", "NEWTX", "UNSUB"):
        smt.decls.append("(declare-const %s V)" % c)
    for i in range(K):
        smt.decls.append("(declare-const T%d V)" % i)
        smt.decls.append("(declare-const alive_%d Bool)" % i)
        smt.decls.append("(declare-const same_%d Bool)" % i)
    return smt


def _models(K):
    models = std_models()

    def m_send(ex, v, env):
        tx = _deep(ex, env, v[0])
        env["__log"] = env.get("__log", ()) + (("send", tx, v[1]),)
        return "(C_sendfut %s %s)" % (tx, v[1])
    m_send.wants_env = True

    def m_poll(ex, v, env):
        fut = _deep(ex, env, v[0])
        if fut.startswith("(C_sendfut "):
            tx = split_sexpr_args(fut)[0]
            m = re.match(r"^T(\d+)$", tx)
            if not m:
                raise Inconclusive("send on something that is not a registered sender: %s" % tx[:40])
            i = m.group(1)
            return [("alive_%s" % i, "(CE_Poll_Ready (C_Ok UNIT))"), ("(not alive_%s)" % i, "(CE_Poll_Ready (C_Err (send_err %s)))" % tx)]
        if fut.startswith("(C_joinall "):
            outs = []
            for conds, cos in force(ex, env, split_sexpr_args(fut)[0]):
                for c2, vals, e2 in run_all_coroutines(ex, env, cos):
                    if "PANIC" in vals:
                        env["__panic"] = env.get("__panic", ()) + ("a joined future panicked",)
                        continue
                    for k in ("__log", "__seq"):
                        if k in e2:
                            env[k] = e2[k] if k == "__log" else dict(env.get(k, {}), **e2[k])
                    outs.append((conj(conds + c2), "(CE_Poll_Ready %s)" % ex.new_seq(env, vals)))
            return outs
        if fut.startswith("(C_selffut "):
            env["__log"] = env.get("__log", ()) + (("self.send", split_sexpr_args(fut)[1]),)
            return "(CE_Poll_Ready UNIT)"
        raise Inconclusive("poll of an unknown future %s" % fut[:60])
    m_poll.wants_env = True

    def m_retain(ex, v, env):
        sid = ex.seq_of(env, v[0], "Vec")
        items, pos = env["__seq"][sid]
        acc = [([], [])]
        for it in items[pos:]:
            nxt = []
            for c2, r in run_closure(ex, env, v[1], ["(ref %s)" % it]):
                b = mk_v2b(r)
                for conds, lst in acc:
                    if b == "true":
                        nxt.append((conds + c2, lst + [it]))
                    elif b == "false":
                        nxt.append((conds + c2, lst))
                    else:
                        nxt.append((conds + c2 + [b], lst + [it]))
                        nxt.append((conds + c2 + [ex._neg(b)], lst))
            acc = nxt
        # every fork carries the list it leaves behind
        return [(conj(conds), "UNIT", {"__seq": dict(env["__seq"], **{sid: (tuple(lst), 0)})}) for conds, lst in acc]
    m_retain.wants_env = True

    def m_same_channel(ex, v, env):
        a, b = _deep(ex, env, v[0]), _deep(ex, env, v[1])
        m = re.match(r"^T(\d+)$", a)
        if not m or b != "UNSUB":
            raise Inconclusive("same_channel(%s, %s)" % (a[:30], b[:30]))
        return [("same_%s" % m.group(1), "(b2v true)"), ("(not same_%s)" % m.group(1), "(b2v false)")]
    m_same_channel.wants_env = True
    def m_clone(ex, v, env):
        return "(clone_of %s)" % _deep(ex, env, v[0])
    m_clone.wants_env = True
    models.update({
        r"^async_channel::Sender::<sync::Event>::send$": m_send,
        r" as Future>::poll$": m_poll,
        r"^<sync::Event as Clone>::clone$": m_clone,
        r" as IterExt>::join_all$": lambda ex, v: "(C_joinall %s)" % v[0],
        r"^Vec::<async_channel::Sender<sync::Event>>::retain::<": m_retain,
        r"^same_channel::<sync::Event>$": m_same_channel,
        r"^sync::Subscribers::send$": lambda ex, v: "(C_selffut %s %s)" % (v[0], v[1]),
        r"^<impl FnOnce\(\) -> Event as FnOnce<\(\)>>::call_once$": lambda ex, v: "(call_f %s)" % v[0],
    })
    return models


def q_c12_subscribers(bodies):
    name = "c12_subscribers"
    send = _find(bodies, r"^sync::<impl at [^>]*>::send::\{closure#0\}$", r"async fn body of sync::Subscribers::send\(\)")
    sendw = _find(bodies, r"^sync::<impl at [^>]*>::send_with::\{closure#0\}$", r"Subscribers::send_with")
    sub = _find(bodies, r"^sync::<impl at [^>]*>::subscribe$", r"^_1: &mut sync::Subscribers")
    unsub = _find(bodies, r"^sync::<impl at [^>]*>::unsubscribe$", r"^_1: &mut sync::Subscribers")
    if not (len(send) == 1 and len(sendw) == 1 and len(sub) == 1 and len(unsub) == 1):
        return dict(name=name, property="C12", verdict="inconclusive", detail="Subscribers bodies not found uniquely (%d %d %d %d)" % (len(send), len(sendw), len(sub), len(unsub)), functions=[])
    KS = (0, 1, 2, 3, 4) if THOROUGH else (0, 1, 2, 3)
    problems, nq, ncases, funcs = [], 0, 0, set()

    def upvars(body):
        up = {}
        for var, expr in body.debug.items():
            mm = re.match(r"^\(\(\*_\d+\)\.(\d+): ", expr)
            if mm:
                up[var] = mm.group(1)
        return up
    for K in KS:
        subs0 = ["T%d" % i for i in range(K)]
        # ---------------- send
        smt = _setup(K)
        ex = PMExec(bodies, smt, models=_models(K), enums={"Poll": ["Ready", "Pending"]}, max_paths=4000, max_depth=20000)
        ex.discr_of["(deref CORO)"] = 0
        up = upvars(send[0])
        if "self" not in up or "event" not in up:
            return dict(name=name, property="C12", verdict="inconclusive", detail="send upvars %s" % up, functions=[])
        env0 = {"_1": "(C_pin CORO)", "_2": "CX"}
        lst = ex.new_seq(env0, subs0)
        env0["__heap"] = {("CORO", up["self"]): "SUBS", ("CORO", up["event"]): "EVENT", ("SUBS", "0"): lst}
        res = []
        try:
            ex._walk(send[0], "bb0", env0, [], [], res, 0)
        except (Inconclusive, ValueError, AssertionError, KeyError, IndexError, RecursionError) as e:
            problems.append(("Subscribers::send can be followed", "inconclusive", "K=%d: %r" % (K, e)))
            continue
        funcs |= ex.inlined
        for pc, ret, calls, env in res:
            nq += 1
            v, _ = solve(smt.script("(and true %s)" % " ".join(pc)))
            if v == "unsat":
                continue
            ncases += 1
            alive = {i: ("alive_%d" % i in " ".join(pc).replace("(not alive_%d)" % i, "")) for i in range(K)}
            dead = {i: ("(not alive_%d)" % i in " ".join(pc)) for i in range(K)}
            tag = "subscribers=%d receivers dropped=%s" % (K, [i for i in range(K) if dead[i]])
            if ret == "PANIC" or env.get("__panic"):
                problems.append(("delivering an event never panics", "sat", tag + " %s" % (env.get("__panic"),)))
                continue
            if ret != "(CE_Poll_Ready UNIT)" and not ret.startswith("(CE_Poll_Ready"):
                problems.append(("send completes", "sat", tag + " ret=%s" % ret[:60]))
                continue
            sends = [l for l in env.get("__log", ()) if l[0] == "send"]
            per = {t: [s for s in sends if s[1] == t] for t in subs0}
            bad = [t for t in subs0 if len(per[t]) != 1 or per[t][0][2] != "(clone_of EVENT)"]
            if bad or len(sends) != K:
                problems.append(("every registered subscriber gets the event exactly once, whatever happens to the other subscribers (a dropped receiver elsewhere in the list included)", "sat",
                                 tag + " sends=%s" % [(s[1], s[2][:20]) for s in sends]))
                continue
            try:
                after = ex.seq_items(env, env["__heap"].get(("SUBS", "0")))
            except (Inconclusive, KeyError, TypeError, AttributeError) as e:
                problems.append(("the subscriber list after send can be read", "inconclusive", tag + " %r" % (e,)))
                continue
            undecided = [i for i in range(K) if not alive[i] and not dead[i]]
            if undecided:
                problems.append(("every send is awaited (its outcome decides whether the subscriber stays)", "sat", tag + " not awaited: %s" % undecided))
                continue
            want = [t for i, t in enumerate(subs0) if alive[i]]
            if sorted(after) != sorted(want):
                problems.append(("after delivering an event the list holds exactly the subscribers whose receiver is alive", "sat", tag + " left=%s" % after))
        # ---------------- send_with
        smt = _setup(K)
        ex = PMExec(bodies, smt, models=_models(K), enums={"Poll": ["Ready", "Pending"]}, max_paths=4000)
        ex.discr_of["(deref CORO)"] = 0
        up = upvars(sendw[0])
        env0 = {"_1": "(C_pin CORO)", "_2": "CX"}
        lst = ex.new_seq(env0, subs0)
        if "self" not in up or "f" not in up:
            problems.append(("send_with upvars", "inconclusive", str(up)))
            continue
        env0["__heap"] = {("CORO", up["self"]): "SUBS", ("CORO", up["f"]): "FCLOSURE", ("SUBS", "0"): lst}
        res = []
        try:
            ex._walk(sendw[0], "bb0", env0, [], [], res, 0)
        except (Inconclusive, ValueError, AssertionError, KeyError, IndexError, RecursionError) as e:
            problems.append(("Subscribers::send_with can be followed", "inconclusive", "K=%d: %r" % (K, e)))
            continue
        funcs |= ex.inlined
        for pc, ret, calls, env in res:
            ncases += 1
            log = env.get("__log", ())
            built = [c for c in calls if re.search(r"call_once$", c[0])]
            inner = [l for l in log if l[0] == "self.send"]
            if K == 0 and (built or inner):
                problems.append(("without subscribers no event is built or sent", "sat", "send_with K=0"))
            if K > 0 and (len(built) != 1 or len(inner) != 1 or inner[0][1] != "(call_f FCLOSURE)"):
                problems.append(("with subscribers the event is built once and sent once", "sat", "send_with K=%d built=%d sent=%s" % (K, len(built), inner)))
        # ---------------- subscribe / unsubscribe
        smt = _setup(K)
        ex = PMExec(bodies, smt, models=_models(K), max_paths=4000)
        env0 = {}
        lst = ex.new_seq(env0, subs0)
        try:
            paths = ex.run(sub[0], ["SUBS", "NEWTX"], heap0={("SUBS", "0"): lst}, env0=env0, feasibility=False)
            funcs |= ex.inlined
            for pc, ret, calls, env in paths:
                ncases += 1
                if ex.seq_items(env, env["__heap"][("SUBS", "0")]) != subs0 + ["NEWTX"]:
                    problems.append(("subscribe appends the new subscriber and keeps the others", "sat", "K=%d" % K))
            env1 = {}
            lst = ex.new_seq(env1, subs0)
            paths = ex.run(unsub[0], ["SUBS", "(ref UNSUB)"], heap0={("SUBS", "0"): lst}, env0=env1, feasibility=False)
            funcs |= ex.inlined
            for pc, ret, calls, env in paths:
                nq += 1
                v, _ = solve(smt.script("(and true %s)" % " ".join(pc)))
                if v == "unsat":
                    continue
                ncases += 1
                want = [t for i, t in enumerate(subs0) if "(not same_%d)" % i in " ".join(pc)]
                got = ex.seq_items(env, env["__heap"][("SUBS", "0")])
                if got != want:
                    problems.append(("unsubscribe removes exactly the entries that are the same channel as the given sender", "sat", "K=%d pc=%s left=%s" % (K, pc[:4], got)))
                if any(("same_%d" % i not in " ".join(pc)) for i in range(K)):
                    problems.append(("unsubscribe compares every registered sender with the one to remove", "sat", "K=%d pc=%s" % (K, pc[:4])))
        except (Inconclusive, ValueError, AssertionError, KeyError, IndexError, RecursionError) as e:
            problems.append(("subscribe / unsubscribe can be followed", "inconclusive", "K=%d: %r" % (K, e)))
    problems.sort(key=lambda p: p[1] == "inconclusive")
    return dict(name=name, property="C12", verdict=_verdict(problems), detail="feasible paths=%d; problems: %s" % (ncases, problems[:4] or "none"),
                functions=sorted(funcs) + ["Vec / iterator adaptors / n0_future join_all (modelled as sequences), async_channel::Sender::send (symbolic: delivered or receiver gone)"],
                queries=nq, cases=ncases, witness="c12subs",
                check_message=(problems[0][0] if problems else "every subscriber gets every event once; dropped receivers are forgotten, nobody else"))


QUERIES_C12 = [q_c12_subscribers]
