"""E3 queries for C15 (persistence): the REAL `Store::set_download_policy` transaction closure and
`Store::get_download_policy` (src/store/fs.rs), every path (Exec2).  redb tables answer symbolically
(document row present / absent, policy row present / absent); postcard is an uninterpreted encoder
with `from_bytes(to_stdvec(p)) = p` (its round trip for policies is decided by the Kani harnesses of
C15/C09).  Decided:

  set: the document's existence is established BEFORE anything is written; for an unknown document the
       call fails and NO table is written; for a known document exactly one row is written: the
       download-policy row of THAT document, holding the encoding of the given policy; nothing else.
  get: reads the download-policy row of the given document; absent => the default policy; present =>
       the decoded row.  With the encoder's round trip: get after set returns the policy that was set.
"""
import re

from mirsmt import Smt, solve, mk_deref, split_sexpr_args
from exec2 import Exec2, is_addr
from queries_c05 import _find, _src
from queries_c08 import _tables_fields, _deep


def _models(smt, fields, st):
    for f, n in (("C_Ok", 1), ("C_Err", 1), ("C_Continue", 1), ("C_Break", 1), ("C_Some", 1), ("C_None", 0), ("discr", 1), ("encode", 1), ("decode", 1),
                 ("as_slice", 1), ("nsbytes", 1), ("C_guard", 1)):
        smt.fun(f, n)
    for c in ("TBL", "NS", "POLICY", "STORE", "DOCROW", "POLROW", "ERR", "DEFAULTPOLICY", "UNIT"):
        smt.decls.append("(declare-const %s V)" % c)
    smt.decls.append("(declare-const doc_exists Bool)")
    smt.decls.append("(declare-const pol_exists Bool)")
    smt.decls.append("(declare-const tables_ok Bool)")
    T = {f: "(addr (ref TBL) ak_%d)" % i for i, f in enumerate(fields)}
    st["T"] = T

    def m_get(ex, v, env):
        t = v[0]
        key = _deep(ex, env, v[1])
        env["__reads"] = env.get("__reads", ()) + ((t, key, len(env.get("__writes_tbl", ()))),)
        if t == T["namespaces"]:
            return [("doc_exists", "(C_Ok (C_Some (C_guard DOCROW)))"), ("(not doc_exists)", "(C_Ok C_None)")]
        if t == T["download_policy"]:
            return [("pol_exists", "(C_Ok (C_Some (C_guard POLROW)))"), ("(not pol_exists)", "(C_Ok C_None)")]
        raise ValueError("get on an unexpected table %s" % t[:60])
    m_get.wants_env = True

    def m_insert(ex, v, env):
        env["__writes_tbl"] = env.get("__writes_tbl", ()) + (("insert", v[0], _deep(ex, env, v[1]), _deep(ex, env, v[2])),)
        return "(C_Ok C_None)"
    m_insert.wants_env = True

    def m_other_write(ex, v, env):
        env["__writes_tbl"] = env.get("__writes_tbl", ()) + (("other", v[0], "", ""),)
        return "(C_Ok C_None)"
    m_other_write.wants_env = True

    def m_branch(ex, v):
        x = v[0]
        if x.startswith("(C_Ok ") or x.startswith("(C_Some "):
            return "(C_Continue %s)" % split_sexpr_args(x)[0]
        if x.startswith("(C_Err "):
            return "(C_Break %s)" % x
        if x == "C_None":
            return "(C_Break C_None)"
        ok = "(= (discr %s) k_int_0)" % x
        ex._konst("int_0")
        return [(ok, "(C_Continue (unwrap_ok %s))" % x), ("(not %s)" % ok, "(C_Break (C_Err (unwrap_err %s)))" % x)]
    smt.fun("unwrap_ok", 1)
    smt.fun("unwrap_err", 1)

    def m_is_some(ex, v, env):
        x = _deep(ex, env, v[0])
        if x == "C_None":
            return "(b2v false)"
        if x.startswith("(C_Some "):
            return "(b2v true)"
        raise ValueError("is_some on %s" % x[:40])
    m_is_some.wants_env = True

    def m_value(ex, v, env):
        g = _deep(ex, env, v[0])
        if g.startswith("(C_guard "):
            return split_sexpr_args(g)[0]
        raise ValueError("AccessGuard::value on %s" % g[:40])
    m_value.wants_env = True

    models = {
        r"^store::fs::Store::tables$": lambda ex, v: [("tables_ok", "(C_Ok (ref TBL))"), ("(not tables_ok)", "(C_Err ERR)")],
        r"ReadableTable<.*>>::get(::<.*>)?$|^Table::<.*>::get(::<.*>)?$": m_get,
        r"^Table::<.*>::insert(::<.*>)?$": m_insert,
        r"^(Table|MultimapTable)::<.*>::(remove|retain|retain_in|remove_all|extract_if|extract_from_if|pop_first|pop_last|drain)(::<.*>)?$": m_other_write,
        r" as Try>::branch$": m_branch,
        r" as FromResidual<.*>>::from_residual$": lambda ex, v: v[0] if v[0].startswith("(C_Err") else "(C_Err %s)" % v[0],
        r"^(std::option::)?Option::<.*>::is_some$": m_is_some,
        r"anyhow::__private::not(::<.*>)?$": lambda ex, v: "(b2v (not %s))" % __import__("mirsmt").mk_v2b(v[0]),
        r"^(postcard::)?to_stdvec::<": lambda ex, v: "(C_Ok (encode %s))" % mk_deref(v[0]),
        r"^(postcard::)?from_bytes::<": lambda ex, v: "(C_Ok (decode %s))" % v[0],
        r"^Vec::<u8>::as_slice$|<Vec<u8> as Deref>::deref$": lambda ex, v: "(as_slice %s)" % mk_deref(v[0]),
        r"NamespaceId::as_bytes$": lambda ex, v: "(nsbytes %s)" % mk_deref(v[0]),
        r"^AccessGuard::<.*>::value$": m_value,
        r"^<DownloadPolicy as (std::default::)?Default>::default$": lambda ex, v: "DEFAULTPOLICY",
        r"anyhow::__private::format_err$|anyhow::Error::msg|anyhow::__private::must_use$": lambda ex, v: "ERR",
        r"Arguments::<'_>::from_str$|Arguments::<'_>::new": lambda ex, v: "UNIT",
    }
    return models


def q_c15_policy_store(bodies):
    name = "c15_policy_store"
    fields = _tables_fields()
    set_hits = _find(bodies, r"::set_download_policy::\{closure#0\}$", r"&mut Tables<'_> -> Result<\(\), anyhow::Error>")
    get_hits = _find(bodies, r"^store::fs::<impl at [^>]*>::get_download_policy$", r"store::fs::Store")
    if len(set_hits) != 1 or len(get_hits) != 1 or "download_policy" not in fields or "namespaces" not in fields:
        return dict(name=name, property="C15", verdict="inconclusive", detail="bodies / Tables not found uniquely (%d, %d)" % (len(set_hits), len(get_hits)), functions=[])
    sbody, gbody = set_hits[0], get_hits[0]
    problems, nq, ncases = [], 0, 0
    # ---------------- set
    smt = Smt()
    st = {}
    models = _models(smt, fields, st)
    T = st["T"]
    roles = {}
    for var in ("namespace", "policy"):
        m = re.search(r"\(_1\.(\d+): ", sbody.debug.get(var, ""))
        if m:
            roles[var] = int(m.group(1))
    if len(roles) != 2:
        return dict(name=name, property="C15", verdict="inconclusive", detail="closure captures not recognised: %s" % sbody.debug, functions=[sbody.name])
    cl = [None, None]
    cl[roles["namespace"]] = "(ref (ref NS))" if "&&" in sbody.debug.get("namespace", "") or "(*(*" in sbody.debug.get("namespace", "") else "(ref NS)"
    cl[roles["policy"]] = "POLICY" if not sbody.debug["policy"].startswith("(*") else "(ref POLICY)"
    smt.fun("C_closure2", 2)
    ex = Exec2(bodies, smt, models=models, max_paths=2000)
    for i in range(len(fields)):
        ex.ksym(str(i))
    try:
        paths = ex.run(sbody, ["(C_closure2 %s)" % " ".join(cl), "(ref TBL)"], feasibility=False)
    except (ValueError, AssertionError, KeyError, IndexError, RecursionError) as e:
        return dict(name=name, property="C15", verdict="inconclusive", detail="set: %r" % e, functions=[sbody.name])
    set_value = None
    for pc, ret, calls, env in paths:
        pcs = "(and true %s)" % " ".join(pc)
        nq += 1
        v, _ = solve(smt.script(pcs))
        if v == "unsat":
            continue
        ncases += 1
        writes = env.get("__writes_tbl", ())
        reads = env.get("__reads", ())
        tag = "set path=%s" % pc[:4]
        # (a) existence established before any write
        ns_reads = [r for r in reads if r[0] == T["namespaces"]]
        if writes and (not ns_reads or min(r[2] for r in ns_reads) > 0 or "doc_exists" not in pc):
            problems.append(("a policy is only written once the document is known to exist (checked before the write)", "sat", tag + " writes=%d" % len(writes)))
            continue
        if ns_reads and any("NS" not in r[1] for r in ns_reads):
            problems.append(("the existence check looks up the document the policy is set for", "sat", tag))
            continue
        if "(not doc_exists)" in pc:
            if writes or not ret.startswith("(C_Err"):
                problems.append(("setting a policy for an unknown document fails and writes nothing", "sat", tag + " ret=%s" % ret[:40]))
            continue
        if ret.startswith("(C_Err"):
            if writes:
                problems.append(("a failed set leaves no row behind", "sat", tag))
            continue
        if "doc_exists" not in pc:
            problems.append(("the outcome of set depends on the document's existence", "sat", tag))
            continue
        if len(writes) != 1 or writes[0][0] != "insert" or writes[0][1] != T["download_policy"]:
            problems.append(("a successful set writes exactly the document's download-policy row", "sat", tag + " writes=%s" % [w[:2] for w in writes]))
            continue
        nq += 1
        v, _ = solve(smt.script("(and %s (not (and (= %s (nsbytes NS)) (= %s (as_slice (encode POLICY))))))" % (pcs, writes[0][2], writes[0][3])))
        if v != "unsat":
            problems.append(("the row written is (document id -> encoding of the given policy)", v, tag + " key=%s val=%s" % (writes[0][2][:40], writes[0][3][:40])))
            continue
        set_value = writes[0][3]
    if set_value is None and not problems:
        problems.append(("set_download_policy can succeed for an existing document", "sat", "no successful path"))
    # ---------------- get
    smt2 = Smt()
    st2 = {}
    models2 = _models(smt2, fields, st2)
    T2 = st2["T"]
    ex2 = Exec2(bodies, smt2, models=models2, max_paths=2000)
    for i in range(len(fields)):
        ex2.ksym(str(i))
    try:
        gpaths = ex2.run(gbody, ["STORE", "(ref NS)"], feasibility=False)
    except (ValueError, AssertionError, KeyError, IndexError, RecursionError) as e:
        return dict(name=name, property="C15", verdict="inconclusive", detail="get: %r" % e, functions=[gbody.name])
    for pc, ret, calls, env in gpaths:
        pcs = "(and true %s)" % " ".join(pc)
        nq += 1
        v, _ = solve(smt2.script(pcs))
        if v == "unsat":
            continue
        ncases += 1
        tag = "get path=%s" % pc[:4]
        if env.get("__writes_tbl"):
            problems.append(("reading a policy writes nothing", "sat", tag))
            continue
        if "(not tables_ok)" in pc:
            continue
        reads = env.get("__reads", ())
        if len(reads) != 1 or reads[0][0] != T2["download_policy"]:
            problems.append(("get reads the download-policy table", "sat", tag + " reads=%s" % [r[:2] for r in reads]))
            continue
        nq += 1
        v, _ = solve(smt2.script("(and %s (not (= %s (nsbytes NS))))" % (pcs, reads[0][1])))
        if v != "unsat":
            problems.append(("get reads the row of the given document", v, tag))
            continue
        if "(not pol_exists)" in pc:
            if ret != "(C_Ok DEFAULTPOLICY)":
                problems.append(("a document without a stored policy has the default policy", "sat", tag + " ret=%s" % ret[:60]))
            continue
        if "pol_exists" in pc and not ret.startswith("(C_Err"):
            nq += 1
            v, _ = solve(smt2.script("(and %s (not (= %s (C_Ok (decode POLROW)))))" % (pcs, ret)))
            if v != "unsat":
                problems.append(("a stored policy is returned as the decoding of its row", v, tag + " ret=%s" % ret[:60]))
    verdict = "holds"
    if any(p[1] == "inconclusive" for p in problems):
        verdict = "inconclusive"
    if any(p[1] != "inconclusive" for p in problems):
        verdict = "violated"
    problems.sort(key=lambda p: p[1] == "inconclusive")  # a confirmed problem names the check
    return dict(name=name, property="C15", verdict=verdict, detail="feasible paths=%d; problems: %s" % (ncases, problems[:4] or "none"),
                functions=[sbody.name, gbody.name, "redb Table::{get,insert}, postcard::{to_stdvec,from_bytes} (modelled / uninterpreted)"],
                queries=nq, cases=ncases, witness="c15store",
                check_message=(problems[0][0] if problems else "download policies persist"))


QUERIES_C15 = [q_c15_policy_store]
