"""E3 queries for C08 over the REAL redb-backed reconciliation primitives of `impl ranger::Store<SignedEntry>
for StoreInstance` (src/store/fs.rs): `get_range` (with `chain_none`), `get_first`, `get_fingerprint`.

`get_range`: every path is executed (Exec2); the bounds objects it builds are kept as terms
(`RecordsBounds::{new, namespace, from_start, to_end}` answer with the interval their Kani harnesses
`bounds_namespace_*` decide they denote: [start, end) clipped to the namespace).  The solver then decides,
for an ARBITRARY row position p of the records table (inside or outside the document), that p is produced
by the first scan / the second scan exactly when the ordered-map definition says so:
    x < y : first = [x, y)            second = nothing
    x = y : first = the whole document second = nothing
    x > y : first = [start, y)        second = [x, end]      (wrap-around, in this order)
Positions are integers; x and y are ids of the document (ns_start <= x, y < ns_end).
"""
import re

from mirsmt import Smt, solve, mk_deref, split_sexpr_args
from exec2 import Exec2, is_addr
from queries_c05 import _find, _src


def _deep(ex, env, t):
    for _ in range(8):
        if is_addr(t):
            t = ex.load(env, t, whole=False)
        elif t.startswith("(ref "):
            t = mk_deref(t)
        else:
            break
    return t


def _tables_fields():
    m = re.search(r"pub struct Tables<'tx> \{(.*?)\n\}", _src("src/store/fs/tables.rs"), re.S)
    return re.findall(r"pub (\w+):", m.group(1)) if m else []


def _common_models(smt, st):
    for f, n in (("C_Ok", 1), ("C_Err", 1), ("C_Continue", 1), ("C_Break", 1), ("C_Some", 1), ("C_None", 0), ("C_bt", 1), ("C_bounds", 2), ("C_rr", 2), ("C_chain", 2),
                 ("C_optiter", 1), ("C_emptyiter", 0), ("CE_Bound_Included", 1), ("CE_Bound_Excluded", 1), ("CE_Bound_Unbounded", 0), ("discr", 1),
                 ("CE_Ordering_Less", 0), ("CE_Ordering_Equal", 0), ("CE_Ordering_Greater", 0), ("C_range", 2)):
        smt.fun(f, n)
    for c in ("SELF", "STORE", "TBL", "X", "Y", "MYNS", "NSSTART", "NSEND", "TERR"):
        smt.decls.append("(declare-const %s V)" % c)
    smt.decls.append("(declare-fun pos (V) Int)")

    def m_branch(ex, v):
        x = v[0]
        if x.startswith("(C_Ok ") or x.startswith("(C_Some "):
            return "(C_Continue %s)" % split_sexpr_args(x)[0]
        if x.startswith("(C_Err "):
            return "(C_Break %s)" % x
        if x == "C_None":
            return "(C_Break C_None)"
        raise ValueError("branch of %s" % x[:60])

    def m_cmp(ex, v, env):
        a, b = _deep(ex, env, v[0]), _deep(ex, env, v[1])
        st["cmp"] = (a, b)
        return [("(< (pos %s) (pos %s))" % (a, b), "CE_Ordering_Less"), ("(= (pos %s) (pos %s))" % (a, b), "CE_Ordering_Equal"), ("(> (pos %s) (pos %s))" % (a, b), "CE_Ordering_Greater")]
    m_cmp.wants_env = True

    def m_ns_bounds(kind):
        def f(ex, v, env):
            ns = _deep(ex, env, v[0])
            if ns != "MYNS":
                st.setdefault("foreign_ns", []).append((kind, ns))
            if kind == "namespace":
                return "(C_bounds (CE_Bound_Included NSSTART) (CE_Bound_Excluded NSEND))"
            if kind == "from_start":
                return "(C_bounds (CE_Bound_Included NSSTART) %s)" % v[1]
            return "(C_bounds %s (CE_Bound_Excluded NSEND))" % v[1]
        f.wants_env = True
        return f

    def m_clamp(ex, v, env):
        # the intersection with the ids of the given namespace (what the function computes: Kani harness bounds_clamp_*)
        ns = _deep(ex, env, v[1])
        if ns != "MYNS":
            st.setdefault("foreign_ns", []).append(("clamp_to_namespace", ns))
        smt.fun("C_clamp", 1)
        return "(C_clamp %s)" % v[0]
    m_clamp.wants_env = True

    def m_with_bounds(ex, v, env):
        t = v[0]
        st.setdefault("tables", []).append(t)
        return "(C_Ok (C_rr %s %s))" % (t, v[1])
    m_with_bounds.wants_env = True

    def m_opt_into_iter(ex, v):
        if v[0] == "C_None":
            return "C_emptyiter"
        if v[0].startswith("(C_Some "):
            return "(C_optiter %s)" % split_sexpr_args(v[0])[0]
        raise ValueError("Option::into_iter of %s" % v[0][:40])

    def m_flatten(ex, v):
        if v[0] == "C_emptyiter":
            return "C_emptyiter"
        if v[0].startswith("(C_optiter "):
            return split_sexpr_args(v[0])[0]
        raise ValueError("flatten of %s" % v[0][:40])

    models = {
        r"^<store::fs::Store as AsMut<store::fs::Store>>::as_mut$": lambda ex, v: v[0],
        r"^store::fs::Store::tables$": lambda ex, v: [("tables_ok", "(C_Ok (ref TBL))"), ("(not tables_ok)", "(C_Err TERR)")],
        r" as Try>::branch$": m_branch,
        r" as FromResidual<.*>>::from_residual$": lambda ex, v: v[0],
        r"^ranger::Range::<RecordIdentifier>::x$": lambda ex, v: "(ref X)",
        r"^ranger::Range::<RecordIdentifier>::y$": lambda ex, v: "(ref Y)",
        r"^<RecordIdentifier as Ord>::cmp$": m_cmp,
        r"^RecordIdentifier::to_byte_tuple$": lambda ex, v: "(C_bt %s)" % mk_deref(v[0]),
        r"^RecordsBounds::new$": lambda ex, v: "(C_bounds %s %s)" % (v[0], v[1]),
        r"^RecordsBounds::namespace$": m_ns_bounds("namespace"),
        r"^RecordsBounds::from_start$": m_ns_bounds("from_start"),
        r"^RecordsBounds::to_end$": m_ns_bounds("to_end"),
        r"^RecordsBounds::clamp_to_namespace$": m_clamp,
        r"^RecordsRange::<'_>::with_bounds::<": m_with_bounds,
        r"^<(std::option::)?Option<.*> as IntoIterator>::into_iter$": m_opt_into_iter,
        r" as Iterator>::flatten$": m_flatten,
        r" as Iterator>::chain::<": lambda ex, v: "(C_chain %s %s)" % (v[0], v[1]),
    }
    smt.decls.append("(declare-const tables_ok Bool)")
    return models


def _member(b, p):
    """membership of integer position p in a (C_bounds lo hi) term -> SMT formula, or None when not understood"""
    if b.startswith("(C_clamp "):
        inner = _member(split_sexpr_args(b)[0], p)
        return None if inner is None else "(and %s (>= %s (pos NSSTART)) (< %s (pos NSEND)))" % (inner, p, p)
    if not b.startswith("(C_bounds "):
        return None
    lo, hi = split_sexpr_args(b)

    def point(t):
        t = t.strip()
        if t == "NSSTART":
            return "(pos NSSTART)"
        if t == "NSEND":
            return "(pos NSEND)"
        m = re.match(r"^\(C_bt (\w+)\)$", t)
        if m:
            return "(pos %s)" % m.group(1)
        return None

    conj = []
    for side, t in (("lo", lo), ("hi", hi)):
        if t == "CE_Bound_Unbounded":
            continue
        m = re.match(r"^\(CE_Bound_(Included|Excluded) (.+)\)$", t)
        if not m:
            return None
        q = point(m.group(2))
        if q is None:
            return None
        if side == "lo":
            conj.append("(%s %s %s)" % (">=" if m.group(1) == "Included" else ">", p, q))
        else:
            conj.append("(%s %s %s)" % ("<=" if m.group(1) == "Included" else "<", p, q))
    return "(and true %s)" % " ".join(conj)


def q_c08_get_range(bodies):
    name = "c08_get_range"
    hits = _find(bodies, r"^store::fs::<impl at [^>]*>::get_range$", r"StoreInstance")
    fields = _tables_fields()
    if len(hits) != 1 or "records" not in fields:
        return dict(name=name, property="C08", verdict="inconclusive", detail="get_range / Tables not found uniquely (%d)" % len(hits), functions=[])
    body = hits[0]
    smt = Smt()
    st = {}
    models = _common_models(smt, st)
    ex = Exec2(bodies, smt, models=models, inline=[(r"^chain_none::<", r"^chain_none$", None)],
               enums={"Bound": ["Included", "Excluded", "Unbounded"], "Ordering": ["Less", "Equal", "Greater"]}, max_paths=2000)
    # Ordering's discriminants are -1/0/1
    k255, k0, k1 = ex._konst("int_255"), ex._konst("int_0"), ex._konst("int_1")
    ex.discr_of.update({"CE_Ordering_Less": 255, "CE_Ordering_Equal": 0, "CE_Ordering_Greater": 1})
    # StoreInstance { namespace, store }
    m = re.search(r"pub struct StoreInstance<'a> \{(.*?)\n\}", _src("src/store/fs.rs"), re.S)
    sf = re.findall(r"^\s*(?:pub(?:\([^)]*\))? )?(\w+)\s*:", m.group(1), re.M) if m else []
    if sorted(sf) != ["namespace", "store"]:
        return dict(name=name, property="C08", verdict="inconclusive", detail="StoreInstance layout changed: %s" % sf, functions=[body.name])
    heap0 = {("SELF", str(sf.index("namespace"))): "MYNS", ("SELF", str(sf.index("store"))): "STORE"}
    try:
        paths = ex.run(body, ["SELF", "(C_range X Y)"], heap0=heap0, feasibility=False)
    except (ValueError, AssertionError, KeyError, IndexError, RecursionError) as e:
        return dict(name=name, property="C08", verdict="inconclusive", detail="%r" % e, functions=[body.name])
    RECORDS = "(addr (ref TBL) %s)" % ex.ksym(str(fields.index("records")))
    # the end points of a range come out of a peer's message: they need not lie inside the document (`anywhere`); the
    # in-document case is asked separately so that a problem there is named as such
    in_doc = ["(<= (pos NSSTART) (pos X))", "(< (pos X) (pos NSEND))", "(<= (pos NSSTART) (pos Y))", "(< (pos Y) (pos NSEND))"]
    smt.decls.append("(declare-const P Int)")
    problems, nq, ncases = [], 0, 0
    for ctx, where in [(pth, w) for pth in paths for w in ((in_doc, "end points inside the document"), (["(< (pos NSSTART) (pos NSEND))"], "end points anywhere (a peer chooses them)"))]:
        (pc, ret, calls, env), ctx, where = ctx, where[0], where[1]
        pcs = "(and true %s %s)" % (" ".join(pc), " ".join(ctx))
        nq += 1
        v, _ = solve(smt.script(pcs))
        if v == "unsat":
            continue
        ncases += 1
        tag = "%s; path=%s" % (where, [c for c in pc][:4])
        if "(not tables_ok)" in pc:
            if not ret.startswith("(C_Err"):
                problems.append(("a storage error is reported", "sat", tag))
            continue
        if not ret.startswith("(C_Ok (C_chain "):
            problems.append(("get_range answers with the chain of a first and a second scan", "sat", tag + " ret=%s" % ret[:80]))
            continue
        first, second = split_sexpr_args(split_sexpr_args(ret)[0])
        scans = []
        okshape = True
        for it in (first, second):
            if it == "C_emptyiter":
                scans.append("false")
                continue
            if not it.startswith("(C_rr "):
                okshape = False
                break
            tbl, b = split_sexpr_args(it)
            if tbl != RECORDS:
                problems.append(("range scans read the records table", "sat", tag + " table=%s" % tbl[:60]))
                okshape = False
                break
            mem = _member(b, "P")
            if mem is None:
                okshape = False
                break
            scans.append(mem)
        if not okshape:
            problems.append(("the bounds of a range scan are built from x, y and the document's own namespace", "sat", tag + " ret=%s" % ret[:160]))
            continue
        inns = "(and (>= P (pos NSSTART)) (< P (pos NSEND)))"
        spec1 = "(ite (< (pos X) (pos Y)) (and %s (>= P (pos X)) (< P (pos Y))) (ite (= (pos X) (pos Y)) %s (and %s (< P (pos Y)))))" % (inns, inns, inns)
        spec2 = "(and (> (pos X) (pos Y)) %s (>= P (pos X)))" % inns
        nq += 1
        v, _ = solve(smt.script("(and %s (not (and (= %s %s) (= %s %s))))" % (pcs, scans[0], spec1, scans[1], spec2)))
        if v != "unsat":
            problems.append(("get_range yields exactly the entries of [x, y) — for x > y those before y, then those from x on; for x = y the whole document — and never a row of another document",
                             v, tag + " first=%s second=%s" % (first[:120], second[:120])))
    if st.get("foreign_ns"):
        problems.append(("namespace-relative bounds use the document's own namespace", "sat", str(st["foreign_ns"])[:120]))
    verdict = "holds"
    if any(p[1] == "inconclusive" for p in problems):
        verdict = "inconclusive"
    if any(p[1] != "inconclusive" for p in problems):
        verdict = "violated"
    problems.sort(key=lambda p: p[1] == "inconclusive")  # a confirmed problem names the check
    return dict(name=name, property="C08", verdict=verdict, detail="feasible paths=%d; problems: %s" % (ncases, problems[:4] or "none"),
                functions=sorted(ex.inlined) + ["RecordsBounds::{new,namespace,from_start,to_end,clamp_to_namespace} (interval semantics decided by the Kani harnesses bounds_namespace_* / bounds_clamp_*), RecordsRange::with_bounds, Iterator::chain (modelled)"],
                queries=nq, cases=ncases, witness="c08range,c08foreign",
                check_message=(problems[0][0] if problems else "get_range meets the ordered-map definition"))


QUERIES_C08 = [q_c08_get_range]


# ------------------------------------------------------------------------------------------------
# get_fingerprint: XOR over exactly the entries of get_range(range), nothing skipped, nothing added
# ------------------------------------------------------------------------------------------------

def q_c08_get_fingerprint(bodies):
    """`StoreInstance::get_fingerprint` executed (Exec2, loop unrolled over the K <= 3 rows the range scan yields, each an
    opaque entry — deletion markers are entries like any other — or, for one row, a storage error):
      * the scan is `get_range` of the document's own store with the (cloned) range it was asked about;
      * the accumulator starts as `Fingerprint::empty()`; it is XOR-ed with `as_fingerprint` of EVERY row of the scan, in
        order, each exactly once, and with nothing else; the accumulator is what is returned;
      * a row that is a storage error ends the function with that error."""
    name = "c08_get_fingerprint"
    from stdmodels import PMExec, Inconclusive
    hits = _find(bodies, r"^store::fs::<impl at [^>]*>::get_fingerprint$", r"StoreInstance")
    if len(hits) != 1:
        return dict(name=name, property="C08", verdict="inconclusive", detail="get_fingerprint not found uniquely (%d)" % len(hits), functions=[])
    body = hits[0]
    problems, nq, ncases = [], 0, 0
    funcs = set()
    for K in (0, 1, 2, 3):
        for err_at in [None] + list(range(K)):
            smt = Smt()
            for f, n in (("C_Ok", 1), ("C_Err", 1), ("C_Some", 1), ("C_None", 0), ("C_Continue", 1), ("C_Break", 1), ("C_seq", 1), ("fpof", 1), ("discr", 1)):
                smt.fun(f, n)
            for c in ("SELF", "RANGE", "FP0", "ROWERR", "UNIT", "SCANERR"):
                smt.decls.append("(declare-const %s V)" % c)
            for i in range(K):
                smt.decls.append("(declare-const E%d V)" % i)
            smt.decls.append("(declare-const scan_ok Bool)")
            rows = ["(C_Err ROWERR)" if i == err_at else "(C_Ok E%d)" % i for i in range(K)]
            st = {"xors": [], "scans": []}

            def m_get_range(ex, v, env, rows=rows):
                env["__scans"] = env.get("__scans", ()) + ((v[0], _deep(ex, env, v[1])),)
                return [("scan_ok", "(C_Ok %s)" % ex.new_seq(env, rows)), ("(not scan_ok)", "(C_Err SCANERR)")]
            m_get_range.wants_env = True

            def m_next(ex, v, env):
                sid = ex.seq_of(env, v[0], "iterator")
                items, pos = env["__seq"][sid]
                if pos >= len(items):
                    return "C_None"
                env["__seq"] = dict(env["__seq"], **{sid: (items, pos + 1)})
                return "(C_Some %s)" % items[pos]
            m_next.wants_env = True

            from stdmodels import std_models as _std
            m_branch = _std()[r" as Try>::branch$"]

            def m_xor(ex, v, env):
                env["__xors"] = env.get("__xors", ()) + ((_deep(ex, env, v[0]), v[1]),)
                return "UNIT"
            m_xor.wants_env = True
            models = {
                r"^<ranger::Range<RecordIdentifier> as Clone>::clone$": lambda ex, v: "(clone_of_range %s)" % mk_deref(v[0]),
                r"^<StoreInstance<'_> as ranger::Store<sync::SignedEntry>>::get_range$": m_get_range,
                r" as Try>::branch$": m_branch,
                r" as FromResidual<.*>>::from_residual$": lambda ex, v: v[0] if v[0].startswith("(C_Err") else "(C_Err %s)" % v[0],
                r"^Fingerprint::empty$": lambda ex, v: "FP0",
                r" as IntoIterator>::into_iter$": lambda ex, v: v[0],
                r" as Iterator>::next$": m_next,
                r"^<sync::SignedEntry as RangeEntry>::as_fingerprint$": lambda ex, v: "(fpof %s)" % mk_deref(v[0]),
                r"^<Fingerprint as BitXorAssign>::bitxor_assign$": m_xor,
            }
            smt.fun("clone_of_range", 1)
            ex = PMExec(bodies, smt, models=models, max_paths=500, max_depth=5000)
            try:
                paths = ex.run(body, ["SELF", "(ref RANGE)"], feasibility=False)
            except (Inconclusive, ValueError, AssertionError, KeyError, IndexError, RecursionError) as e:
                problems.append(("get_fingerprint can be followed", "inconclusive", "K=%d err_at=%s: %r" % (K, err_at, e)))
                continue
            funcs |= ex.inlined
            for pc, ret, calls, env in paths:
                nq += 1
                v, _ = solve(smt.script("(and true %s)" % " ".join(pc)))
                if v == "unsat":
                    continue
                ncases += 1
                tag = "rows=%d error row=%s path=%s" % (K, err_at, pc[:4])
                scans = env.get("__scans", ())
                if len(scans) != 1 or scans[0][0] != "SELF" or scans[0][1] != "(clone_of_range RANGE)":
                    problems.append(("the fingerprint is computed over get_range of the document's own store for exactly the range asked about", "sat", tag + " scans=%s" % (scans,)))
                    continue
                if "(not scan_ok)" in pc:
                    if not ret.startswith("(C_Err"):
                        problems.append(("a failing range scan is reported as an error", "sat", tag))
                    continue
                xors = env.get("__xors", ())
                upto = K if err_at is None else err_at
                # rows taken before an error row / all rows, depending on where the function ended
                if err_at is not None:
                    if not ret.startswith("(C_Err"):
                        problems.append(("a storage error inside the range ends get_fingerprint with that error", "sat", tag + " ret=%s" % ret[:60]))
                    continue
                want = [("FP0", "(fpof E%d)" % i) for i in range(upto)]
                if list(xors) != want:
                    problems.append(("the range fingerprint is the XOR of as_fingerprint of EVERY entry of the range (deletion markers included), each exactly once, starting from the fingerprint of the empty set", "sat",
                                     tag + " xor steps=%s" % [x[1] for x in xors]))
                    continue
                if ret != "(C_Ok FP0)":
                    problems.append(("the value returned is the accumulator", "sat", tag + " ret=%s" % ret[:80]))
    verdict = "holds"
    if any(p[1] == "inconclusive" for p in problems):
        verdict = "inconclusive"
    if any(p[1] != "inconclusive" for p in problems):
        verdict = "violated"
    problems.sort(key=lambda p: p[1] == "inconclusive")
    return dict(name=name, property="C08", verdict=verdict, detail="feasible paths=%d; problems: %s" % (ncases, problems[:4] or "none"),
                functions=sorted(funcs) + ["get_range (its own query c08_get_range), SignedEntry::as_fingerprint (Kani harness fingerprint_input_*), Fingerprint ^= (modelled: recorded)"],
                queries=nq, cases=ncases, witness="c08range",
                check_message=(problems[0][0] if problems else "get_fingerprint is the XOR over exactly the range's entries"))


def q_c08_get_first(bodies):
    """`StoreInstance::get_first` executed: the scan is over the RECORDS table with `RecordsBounds::namespace(own namespace)`;
    the answer is the identifier (namespace, author, key) of the FIRST row of that scan — forwards, its own key columns in
    this order — and the default identifier exactly when the scan is empty; storage errors are reported."""
    name = "c08_get_first"
    from stdmodels import PMExec, Inconclusive, std_models
    hits = _find(bodies, r"^store::fs::<impl at [^>]*>::get_first$", r"StoreInstance")
    fields = _tables_fields()
    m = re.search(r"pub struct StoreInstance<'a> \{(.*?)\n\}", _src("src/store/fs.rs"), re.S)
    sf = re.findall(r"^\s*(?:pub(?:\([^)]*\))? )?(\w+)\s*:", m.group(1), re.M) if m else []
    if len(hits) != 1 or "records" not in fields or sorted(sf) != ["namespace", "store"]:
        return dict(name=name, property="C08", verdict="inconclusive", detail="get_first / layouts not found (%d %s)" % (len(hits), sf), functions=[])
    problems, nq, ncases, funcs = [], 0, 0, set()
    for K in (0, 1, 2):
        smt = Smt()
        for f, n in (("C_Ok", 1), ("C_Err", 1), ("C_Some", 1), ("C_None", 0), ("C_Continue", 1), ("C_Break", 1), ("C_tuple2", 2), ("C_tuple3", 3), ("C_seq", 1), ("C_nsbounds", 1), ("C_asref", 1), ("mk_id", 3), ("C_kguard", 3), ("discr", 1)):
            smt.fun(f, n)
        for c in ("SELF", "STORE", "MYNS", "TBL", "TERR", "RERR", "ROWERR", "DEFAULTID", "VG", "UNIT"):
            smt.decls.append("(declare-const %s V)" % c)
        for i in range(K):
            for c in ("NS%d", "AU%d", "KEY%d"):
                smt.decls.append("(declare-const %s V)" % (c % i))
        for b in ("tables_ok", "range_ok", "row_ok"):
            smt.decls.append("(declare-const %s Bool)" % b)
        rows = ["(C_tuple2 (C_kguard NS%d AU%d KEY%d) VG)" % (i, i, i) for i in range(K)]
        models = std_models()

        def m_range(ex, v, env, rows=rows):
            env["__log"] = env.get("__log", ()) + (("range", v[0], _deep(ex, env, v[1])),)
            seq = ex.new_seq(env, [("(C_Ok %s)" % r) for r in rows])
            return [("range_ok", "(C_Ok %s)" % seq), ("(not range_ok)", "(C_Err RERR)")]
        m_range.wants_env = True

        def m_next(ex, v, env):
            from stdmodels import seq_next
            it = seq_next(ex, env, v[0])
            if it is None:
                return "C_None"
            env["__log"] = env.get("__log", ()) + (("next",),)
            return [("row_ok", "(C_Some %s)" % it), ("(not row_ok)", "(C_Some (C_Err ROWERR))")]
        m_next.wants_env = True

        def m_back(ex, v, env):
            env["__log"] = env.get("__log", ()) + (("next_back",),)
            raise Inconclusive("the scan is read from its far end")
        m_back.wants_env = True

        def m_value(ex, v, env):
            g = _deep(ex, env, v[0])
            if g.startswith("(C_kguard "):
                a, b, c = split_sexpr_args(g)
                return "(C_tuple3 (ref %s) (ref %s) %s)" % (a, b, c)
            raise Inconclusive("AccessGuard::value on %s" % g[:50])
        m_value.wants_env = True
        models.update({
            r"^<store::fs::Store as AsMut<store::fs::Store>>::as_mut$": lambda ex, v: v[0],
            r"^store::fs::Store::tables$": lambda ex, v: [("tables_ok", "(C_Ok (ref TBL))"), ("(not tables_ok)", "(C_Err TERR)")],
            r"^RecordsBounds::namespace$": lambda ex, v: "(C_nsbounds %s)" % v[0],
            r"^RecordsBounds::as_ref$": lambda ex, v: "(C_asref %s)" % mk_deref(v[0]),
            r" as ReadableTable<.*>>::range::<": m_range,
            r"^<redb::Range<.*> as Iterator>::next$": m_next,
            r"^<redb::Range<.*> as DoubleEndedIterator>::next_back$": m_back,
            r"^AccessGuard::<'_, .*>::value$": m_value,
            r"^RecordIdentifier::new::<": lambda ex, v: "(mk_id %s %s %s)" % (mk_deref(v[0]), mk_deref(v[1]), v[2]),
            r"^<RecordIdentifier as (std::default::)?Default>::default$": lambda ex, v: "DEFAULTID",
        })
        ex = PMExec(bodies, smt, models=models, max_paths=500, max_depth=4000)
        try:
            paths = ex.run(hits[0], ["SELF"], heap0={("SELF", str(sf.index("namespace"))): "MYNS", ("SELF", str(sf.index("store"))): "STORE"}, feasibility=False)
        except (Inconclusive, ValueError, AssertionError, KeyError, IndexError, RecursionError) as e:
            problems.append(("get_first can be followed", "inconclusive", "K=%d: %r" % (K, e)))
            continue
        funcs |= ex.inlined
        RECORDS = "(addr (ref TBL) %s)" % ex.ksym(str(fields.index("records")))
        for pc, ret, calls, env in paths:
            nq += 1
            v, _ = solve(smt.script("(and true %s)" % " ".join(pc)))
            if v == "unsat":
                continue
            ncases += 1
            flat = " ".join(pc)
            tag = "rows=%d path=%s" % (K, pc[:4])
            log = env.get("__log", ())
            if "(not tables_ok)" in flat or "(not range_ok)" in flat or "(not row_ok)" in flat:
                if not ret.startswith("(C_Err"):
                    problems.append(("a storage error is reported", "sat", tag + " ret=%s" % ret[:60]))
                continue
            scans = [l for l in log if l[0] == "range"]
            if len(scans) != 1 or scans[0][1] != RECORDS or scans[0][2] != "(C_asref (C_nsbounds MYNS))":
                problems.append(("get_first scans the records table over exactly the document's own namespace", "sat", tag + " scans=%s" % (scans,)))
                continue
            want = "(C_Ok DEFAULTID)" if K == 0 else "(C_Ok (mk_id NS0 AU0 KEY0))"
            if ret != want or len([l for l in log if l[0] == "next"]) > 1:
                problems.append(("get_first answers with the identifier (namespace, author, key) of the first row of the document, and with the default identifier exactly when the document is empty", "sat", tag + " ret=%s" % ret[:80]))
    verdict = "holds"
    if any(p[1] == "inconclusive" for p in problems):
        verdict = "inconclusive"
    if any(p[1] != "inconclusive" for p in problems):
        verdict = "violated"
    problems.sort(key=lambda p: p[1] == "inconclusive")
    return dict(name=name, property="C08", verdict=verdict, detail="feasible paths=%d; problems: %s" % (ncases, problems[:4] or "none"),
                functions=sorted(funcs) + ["redb Table::range / Range::next (modelled: the K rows of the document in key order), RecordsBounds::namespace (Kani harness bounds_namespace_*)"],
                queries=nq, cases=ncases, witness="c08range",
                check_message=(problems[0][0] if problems else "get_first is the first id of the document or the default id"))


def q_c08_prefixes_of(bodies):
    """`StoreInstance::prefixes_of` -> `ParentIterator::new` -> `parents(..)` -> `ParentIterator::next`, executed: the parents of
    an identifier are looked up in the RECORDS table of the current tables, for the identifier's own namespace, author and key
    (what `parents` returns for them — every stored entry at the key or a prefix of it, deletion markers and the empty key
    included, shortest key first — is the Kani harness `parents_law_*`), and the iterator hands out exactly that list, in order."""
    name = "c08_prefixes_of"
    from stdmodels import PMExec, Inconclusive, std_models, seq_next
    hits = _find(bodies, r"^store::fs::<impl at [^>]*>::prefixes_of$", r"StoreInstance")
    newb = _find(bodies, r"^store::fs::<impl at [^>]*>::new$", r"Result<ParentIterator")
    nextb = _find(bodies, r"^store::fs::<impl at [^>]*>::next$", r"^_1: &mut ParentIterator")
    fields = _tables_fields()
    m = re.search(r"pub struct StoreInstance<'a> \{(.*?)\n\}", _src("src/store/fs.rs"), re.S)
    sf = re.findall(r"^\s*(?:pub(?:\([^)]*\))? )?(\w+)\s*:", m.group(1), re.M) if m else []
    if len(hits) != 1 or len(newb) != 1 or len(nextb) != 1 or "records" not in fields or sorted(sf) != ["namespace", "store"]:
        return dict(name=name, property="C08", verdict="inconclusive", detail="bodies not found (%d %d %d)" % (len(hits), len(newb), len(nextb)), functions=[])
    problems, nq, ncases, funcs = [], 0, 0, set()
    for K in (0, 1, 2):
        smt = Smt()
        for f, n in (("C_Ok", 1), ("C_Err", 1), ("C_Some", 1), ("C_None", 0), ("C_Continue", 1), ("C_Break", 1), ("C_seq", 1), ("ns_of", 1), ("author_of", 1), ("key_of", 1), ("discr", 1)):
            smt.fun(f, n)
        for c in ("SELF", "STORE", "MYNS", "TBL", "TERR", "ID", "UNIT"):
            smt.decls.append("(declare-const %s V)" % c)
        for i in range(K):
            smt.decls.append("(declare-const P%d V)" % i)
        smt.decls.append("(declare-const tables_ok Bool)")
        models = std_models()

        def m_parents(ex, v, env, K=K):
            env["__log"] = env.get("__log", ()) + (("parents", v[0], v[1], v[2], v[3]),)
            return ex.new_seq(env, ["P%d" % i for i in range(K)])
        m_parents.wants_env = True
        models.update({
            r"^<store::fs::Store as AsMut<store::fs::Store>>::as_mut$": lambda ex, v: v[0],
            r"^store::fs::Store::tables$": lambda ex, v: [("tables_ok", "(C_Ok (ref TBL))"), ("(not tables_ok)", "(C_Err TERR)")],
            r"^RecordIdentifier::namespace$": lambda ex, v: "(ns_of %s)" % mk_deref(v[0]),
            r"^RecordIdentifier::author$": lambda ex, v: "(author_of %s)" % mk_deref(v[0]),
            r"^RecordIdentifier::key$": lambda ex, v: "(ref (key_of %s))" % mk_deref(v[0]),
            r"^<Vec<u8> as Clone>::clone$": lambda ex, v: mk_deref(v[0]),
            r"^parents::<": m_parents,
        })
        ex = PMExec(bodies, smt, models=models, max_paths=200, max_depth=3000,
                    inline=[(r"^ParentIterator::new$", r"^store::fs::<impl at [^>]*>::new$", r"Result<ParentIterator")])
        try:
            paths = ex.run(hits[0], ["SELF", "(ref ID)"], heap0={("SELF", str(sf.index("namespace"))): "MYNS", ("SELF", str(sf.index("store"))): "STORE"}, feasibility=False)
        except (Inconclusive, ValueError, AssertionError, KeyError, IndexError, RecursionError) as e:
            problems.append(("prefixes_of can be followed", "inconclusive", "K=%d: %r" % (K, e)))
            continue
        funcs |= ex.inlined
        RECORDS = "(addr (ref TBL) %s)" % ex.ksym(str(fields.index("records")))
        for pc, ret, calls, env in paths:
            ncases += 1
            if "(not tables_ok)" in pc:
                if not ret.startswith("(C_Err"):
                    problems.append(("a storage error is reported", "sat", ret[:50]))
                continue
            par = [l for l in env.get("__log", ()) if l[0] == "parents"]
            if len(par) != 1 or par[0][1:] != (RECORDS, "(ns_of ID)", "(author_of ID)", "(key_of ID)"):
                problems.append(("the parents of an identifier are looked up in the records table for its own namespace, author and key", "sat", "K=%d parents calls=%s" % (K, par)))
                continue
            if not ret.startswith("(C_Ok (mk_"):
                problems.append(("prefixes_of answers with a ParentIterator", "sat", ret[:60]))
                continue
            it = split_sexpr_args(split_sexpr_args(ret)[0])[0]
            # drive next()
            outs, e2 = [], {k: v for k, v in env.items() if k.startswith("__")}
            hp = dict(e2.get("__heap", {}))
            hp[("PIT", "0")] = it
            e2["__heap"] = hp
            ok = True
            for _ in range(K + 1):
                res = []
                e3 = dict(e2)
                e3["_1"] = "PIT"
                try:
                    ex._walk(nextb[0], "bb0", e3, [], [], res, 0)
                except (Inconclusive, ValueError, KeyError) as e:
                    problems.append(("ParentIterator::next can be followed", "inconclusive", "%r" % (e,)))
                    ok = False
                    break
                if len(res) != 1:
                    problems.append(("ParentIterator::next has one outcome per call", "inconclusive", "%d" % len(res)))
                    ok = False
                    break
                outs.append(res[0][1])
                e2 = {k: v for k, v in res[0][3].items() if k.startswith("__")}
            funcs |= ex.inlined
            want = ["(C_Some P%d)" % i for i in range(K)] + ["C_None"]
            if ok and outs != want:
                problems.append(("the iterator hands out exactly the list parents() computed, in its order", "sat", "K=%d got=%s" % (K, outs)))
    verdict = "holds"
    if any(p[1] == "inconclusive" for p in problems):
        verdict = "inconclusive"
    if any(p[1] != "inconclusive" for p in problems):
        verdict = "violated"
    problems.sort(key=lambda p: p[1] == "inconclusive")
    return dict(name=name, property="C08", verdict=verdict, detail="paths=%d; problems: %s" % (ncases, problems[:4] or "none"),
                functions=sorted(funcs) + ["parents() (Kani harness parents_law_*)"], queries=nq, cases=ncases, witness="d1",
                check_message=(problems[0][0] if problems else "prefixes_of is parents() of the identifier's own namespace, author and key"))


QUERIES_C08 = [q_c08_get_range, q_c08_get_fingerprint, q_c08_get_first, q_c08_prefixes_of]
