#!/usr/bin/env python3
"""E3 — MIR -> SMT for small loop-free glue that Kani cannot compile (DESIGN.md §3.5).

The nightly MIR dump of /repo (`cargo +nightly rustc -- -Zunpretty=mir`, regenerated on every run)
is parsed; named bodies are executed symbolically (assignments, references, field projections,
aggregates, calls, switchInt on bool/discriminant, goto, return; unwind edges ignored; a body
with a back edge is REJECTED, never unrolled).  Calls are either inlined (body in the dump,
loop-free, on the allow-list), or modelled (`Result::is_ok`, ...), or left as uninterpreted
functions of their arguments.  The negated property is decided by z3 and re-asked of cvc5; any
`(error`, unknown or disagreement is inconclusive.

Values are terms of one uninterpreted sort `V` (opaque Rust values) plus Bool; field projection
and dereference are uninterpreted functions `fld_<i>(V)`, `deref(V)`; `&x`/`&*x` are modelled as
identity on places (ref(x) with deref(ref(x)) = x), which is exact for the read-only glue handled
here.
"""
import re
import subprocess
import sys

FN_RE = re.compile(r"^fn (.+?)\((.*)\) -> (.+) \{$")
CONST_RE = re.compile(r"^const (.+::promoted\[\d+\]|[^ <]+): (.+) = \{$")


class Body:
    def __init__(self, name, sig_args, ret, lines):
        self.name = name
        self.args = sig_args
        self.ret = ret
        self.blocks = {}
        self.locals = {}
        self.debug = {}
        cur = None
        for ln in lines:
            s = ln.strip()
            m = re.match(r"^debug (\w+) => (.+);$", s)
            if m and cur is None:
                self.debug.setdefault(m.group(1), m.group(2))
                continue
            m = re.match(r"^let (?:mut )?(_\d+): (.+);$", s)
            if m:
                self.locals[m.group(1)] = m.group(2)
                continue
            m = re.match(r"^(bb\d+)(?: \(cleanup\))?: \{$", s)
            if m:
                cur = m.group(1)
                self.blocks[cur] = []
                continue
            if s == "}":
                cur = None
                continue
            if cur is not None and s and not s.startswith("//") and not s.startswith("scope") and not s.startswith("debug"):
                self.blocks[cur].append(s)

    def successors(self, bb):
        term = self.blocks[bb][-1] if self.blocks[bb] else ""
        succ = re.findall(r"(?:return|otherwise|\d+|success|->|goto ->)\s*:?\s*(bb\d+)", term)
        # unwind targets are ignored
        unw = re.findall(r"unwind:? (bb\d+)", term)
        return [s for s in succ if s not in unw]

    def has_loop(self):
        color = {}

        def dfs(b):
            color[b] = 1
            for s in self.successors(b):
                if s not in self.blocks:
                    continue
                if color.get(s) == 1:
                    return True
                if color.get(s) is None and dfs(s):
                    return True
            color[b] = 2
            return False

        return dfs("bb0")


def parse_mir(path):
    bodies = {}
    name = None
    buf = []
    for ln in open(path, errors="replace"):
        ln = ln.rstrip("\n")
        m = FN_RE.match(ln)
        if m and not ln.startswith(" "):
            name = m.group(1)
            args = m.group(2)
            ret = m.group(3)
            buf = []
            continue
        mc = CONST_RE.match(ln)
        if mc and name is None:
            # promoted constants and const items: bodies without arguments (evaluated on demand by Exec2)
            name = mc.group(1)
            args = ""
            ret = mc.group(2)
            buf = []
            continue
        if name is not None:
            if ln == "}":
                bodies.setdefault(name, []).append(Body(name, args, ret, buf))
                name = None
            else:
                buf.append(ln)
    return bodies


# ------------------------------------------------------------------------------------------------
# symbolic execution into SMT-LIB text
# ------------------------------------------------------------------------------------------------

class Smt:
    def __init__(self):
        self.decls = ["(set-logic ALL)", "(declare-sort V 0)", "(declare-fun deref (V) V)", "(declare-fun ref (V) V)",
                      "(declare-fun b2v (Bool) V)", "(declare-fun v2b (V) Bool)",
                      # quantifier-free: deref(ref x) and v2b(b2v b) are simplified syntactically (mk_deref / mk_v2b)
                      "(assert (v2b (b2v true)))", "(assert (not (v2b (b2v false))))"]
        self.funs = set()
        self.asserts = []
        self.fresh = 0

    def fun(self, name, nargs, ret="V"):
        key = (name, nargs, ret)
        if key not in self.funs:
            self.funs.add(key)
            self.decls.append("(declare-fun %s (%s) %s)" % (name, " ".join(["V"] * nargs), ret))
        return name

    def const(self, hint):
        self.fresh += 1
        n = "%s_%d" % (re.sub(r"[^A-Za-z0-9_]", "_", hint), self.fresh)
        self.decls.append("(declare-const %s V)" % n)
        return n

    def script(self, goal):
        ints = sorted(set(re.findall(r"\(declare-const (k_int_\d+) V\)", "\n".join(self.decls))))
        distinct = ["(assert (distinct %s))" % " ".join(ints)] if len(ints) > 1 else []
        return "\n".join(self.decls + distinct + ["(assert %s)" % a for a in self.asserts] + ["(assert %s)" % goal, "(check-sat)", "(get-model)"])


CTOR_DISCR = {"None": 0, "Some": 1, "Ok": 0, "Err": 1, "Continue": 0, "Break": 1, "Occupied": 0, "Vacant": 1}


def split_sexpr_args(t):
    """arguments of `(f a b ...)` at nesting depth 1"""
    t = t.strip()
    assert t.startswith("(") and t.endswith(")")
    inner = t[1:-1]
    out, d, cur = [], 0, ""
    for ch in inner:
        if ch == "(":
            d += 1
        elif ch == ")":
            d -= 1
        if ch == " " and d == 0:
            if cur:
                out.append(cur)
            cur = ""
        else:
            cur += ch
    if cur:
        out.append(cur)
    return out[1:]


def mk_deref(t):
    t = t.strip()
    if t.startswith("(ref ") and t.endswith(")"):
        return t[5:-1]
    return "(deref %s)" % t


def mk_v2b(t):
    t = t.strip()
    if t.startswith("(b2v ") and t.endswith(")"):
        return t[5:-1]
    return "(v2b %s)" % t


def sanitize(name):
    return re.sub(r"[^A-Za-z0-9_]", "_", name)


class Exec:
    """Symbolic executor of one loop-free body.  Returns a list of (path_condition, return_value, calls)"""

    def __init__(self, bodies, smt, models=None, inline=None, max_paths=256, ctor=False, unroll=False):
        # ctor: constructor terms `(C_Some x)`, `C_None`, `(C_Ok x)`, `(C_tuple a b)`, ... produced by models and by
        #       Option/tuple aggregates are projected and matched syntactically (exact: they are free constructors);
        #       `k_<n>_usize` constants are folded through AddWithOverflow / comparisons.
        # unroll: bodies with back edges are accepted; every loop must then terminate by concrete (folded) conditions
        #       within the depth limit, otherwise the walk raises and the query is inconclusive.
        self.ctor = ctor
        self.unroll = unroll
        self.stop_blocks = set()   # segment execution: a path that (re)enters one of these blocks ends there
        self.bodies = bodies
        self.smt = smt
        self.models = models or {}
        self.inline = inline or []
        self.max_paths = max_paths

    def operand(self, env, op):
        op = op.strip()
        op = re.sub(r"^(copy|move) ", "", op)
        op = re.sub(r"^no_retag ", "", op)
        op = re.sub(r"^(copy|move) ", "", op)
        if op.startswith("const "):
            c = op[6:]
            if c in ("true", "false"):
                return "(b2v %s)" % c
            return self.smt.fun("k_" + sanitize(c)[:60], 0) if False else self._konst(c)
        return self.place(env, op)

    def _konst(self, c):
        n = "k_" + sanitize(c)[:80]
        key = (n, 0, "V")
        if key not in self.smt.funs:
            self.smt.funs.add(key)
            self.smt.decls.append("(declare-const %s V)" % n)
        return n

    def place(self, env, p):
        p = p.strip()
        while p.startswith("(") and p.endswith(")") and self._balanced(p[1:-1]):
            p = p[1:-1].strip()
        mv = re.match(r"^\(\(\*(_\d+)\) as variant#(\d+)\)\.(\d+): [^()]*(\(.*\))?[^()]*$", p)
        if mv and self._balanced(p):
            refterm = self.place(env, mv.group(1))
            hv = env.get("__heap", {}).get((refterm, "v%s.%s" % (mv.group(2), mv.group(3))))
            if hv is not None:
                return hv
            return "(%s (%s %s))" % (self.smt.fun("fld_%s" % mv.group(3), 1), self.smt.fun("as_variant_%s" % mv.group(2), 1), mk_deref(refterm))
        m = re.match(r"^\*(.+)$", p)
        if m:
            return mk_deref(self.place(env, m.group(1)))
        # field projection  (X.N: T)
        m = re.match(r"^(.+)\.(\d+): .+$", p)
        if m and self._balanced(m.group(1)):
            b0 = m.group(1).strip()
            while b0.startswith("(") and b0.endswith(")") and self._balanced(b0[1:-1]):
                b0 = b0[1:-1].strip()
            md = re.match(r"^\*(.+)$", b0)
            if md:
                refterm = self.place(env, md.group(1))
                hv = env.get("__heap", {}).get((refterm, m.group(2)))
                if hv is not None:
                    return hv
            base = self.place(env, m.group(1))
            if self.ctor and base.startswith("(C_"):
                parts = split_sexpr_args(base)
                if int(m.group(2)) < len(parts):
                    return parts[int(m.group(2))]
            return "(%s %s)" % (self.smt.fun("fld_%s" % m.group(2), 1), base)
        m = re.match(r"^(.+) as (\w+)$", p)
        if m:
            base = self.place(env, m.group(1))
            if self.ctor and base.startswith("(C_%s " % m.group(2)):
                return base
            return "(%s %s)" % (self.smt.fun("as_%s" % m.group(2), 1), base)
        if re.match(r"^_\d+$", p):
            if p not in env:
                env[p] = self.smt.const("undef" + p)
            return env[p]
        if self.ctor and re.search(r"Option::<.*>::None$", p):
            return self.smt.fun("C_None", 0)
        return self._konst(p)

    @staticmethod
    def _balanced(s):
        d = 0
        for ch in s:
            if ch == "(":
                d += 1
            elif ch == ")":
                d -= 1
                if d < 0:
                    return False
        return d == 0

    def assign(self, env, lhs, val):
        lhs = lhs.strip()
        if re.match(r"^_\d+$", lhs):
            env[lhs] = val
            return
        # write through a reference:  ((*_N).F: T) = val   -> path-local heap cell (ref term, field)
        mw = re.match(r"^\(\(\*(_\d+)\)\.(\d+): .+\)$", lhs)
        if mw:
            refterm = self.place(env, mw.group(1))
            heap = dict(env.get("__heap", {}))
            heap[(refterm, mw.group(2))] = val
            env["__heap"] = heap
            env.setdefault("__writes", [])
            env["__writes"] = env["__writes"] + [(refterm, mw.group(2), val)]
            return
        mv = re.match(r"^\(\(\(\*(_\d+)\) as variant#(\d+)\)\.(\d+): .+\)$", lhs)
        if mv:
            refterm = self.place(env, mv.group(1))
            heap = dict(env.get("__heap", {}))
            heap[(refterm, "v%s.%s" % (mv.group(2), mv.group(3)))] = val
            env["__heap"] = heap
            return
        mw = re.match(r"^\(\*(_\d+)\)$", lhs)
        if mw and self.ctor and val.startswith("(C_tuple"):
            refterm = self.place(env, mw.group(1))
            heap = dict(env.get("__heap", {}))
            for i, part in enumerate(split_sexpr_args(val)):
                heap[(refterm, str(i))] = part
            env["__heap"] = heap
            return
        else:
            # write through a projection: not needed for the read-only glue; keep sound by havocking the base local
            m = re.search(r"_\d+", lhs)
            if m:
                env[m.group(0)] = self.smt.const("havoc" + m.group(0))
            if "(*_" in lhs:
                # a store through a reference that is not tracked field-wise: remember it (queries that
                # forbid direct writes to shared state look at `__writes`)
                env["__writes"] = env.get("__writes", []) + [("deref-write", lhs, val)]

    def rvalue(self, env, rv):
        rv = rv.strip()
        if re.match(r"^(no_retag )?(copy|move|const) ", rv):
            return self.operand(env, rv)
        # tuple / array aggregate:  (a, b)   [a, b]   [a; N]
        if (rv.startswith("(") and rv.endswith(")") and self._balanced(rv[1:-1])) or (rv.startswith("[") and rv.endswith("]")):
            parts = self.split_args(rv[1:-1].replace(";", ","))
            if len(parts) > 1 or rv.startswith("["):
                vals = [self.operand(env, x) for x in parts if x]
                if vals:
                    if self.ctor and rv.startswith("("):
                        return "(%s %s)" % (self.smt.fun("C_tuple%d" % len(vals), len(vals)), " ".join(vals))
                    return "(%s %s)" % (self.smt.fun("mk_tuple%d" % len(vals), len(vals)), " ".join(vals))
        m = re.match(r"^&(?:mut |raw const |raw mut )?(.+)$", rv)
        if m:
            inner = m.group(1).strip()
            m2 = re.match(r"^\(\*(.+)\)$", inner)
            if m2:
                return self.place(env, m2.group(1))  # &*x = x
            return "(ref %s)" % self.place(env, inner)
        m = re.match(r"^discriminant\((.+)\)$", rv)
        if m:
            b = self.place(env, m.group(1))
            if self.ctor:
                mc = re.match(r"^\(?C_(\w+)", b)
                if mc and mc.group(1) in CTOR_DISCR:
                    return self._konst("int_%d" % CTOR_DISCR[mc.group(1)])
            return "(%s %s)" % (self.smt.fun("discr", 1), b)
        m = re.match(r"^(Not|Neg)\((.+)\)$", rv)
        if m:
            v = self.operand(env, m.group(2))
            if m.group(1) == "Not":
                return "(b2v (not %s))" % mk_v2b(v)
            return "(%s %s)" % (self.smt.fun("neg", 1), v)
        m = re.match(r"^(Eq|Ne|Lt|Le|Gt|Ge|Add|Sub|Mul|BitAnd|BitOr|BitXor|AddWithOverflow|SubWithOverflow)\((.+)\)$", rv)
        if m:
            a, b = self.split_args(m.group(2))
            va, vb = self.operand(env, a), self.operand(env, b)
            if self.ctor:
                ma, mb = re.match(r"^k_(\d+)_(usize|u64)$", va), re.match(r"^k_(\d+)_(usize|u64)$", vb)
                if ma and mb and ma.group(2) == mb.group(2):
                    x, y = int(ma.group(1)), int(mb.group(1))
                    o = m.group(1)
                    if o in ("AddWithOverflow", "Add"):
                        r = self._konst("%d_%s" % (x + y, ma.group(2)))
                        return "(%s %s (b2v false))" % (self.smt.fun("C_tuple2", 2), r) if o == "AddWithOverflow" else r
                    cmpr = {"Eq": x == y, "Ne": x != y, "Lt": x < y, "Le": x <= y, "Gt": x > y, "Ge": x >= y}
                    if o in cmpr:
                        return "(b2v %s)" % ("true" if cmpr[o] else "false")
            if m.group(1) == "Eq":
                return "(b2v (= %s %s))" % (va, vb)
            if m.group(1) == "Ne":
                return "(b2v (not (= %s %s)))" % (va, vb)
            return "(%s %s %s)" % (self.smt.fun("op_" + m.group(1), 2), va, vb)
        if self.ctor and rv.endswith(")") and re.match(r"^[A-Za-z_]", rv) and "::" in rv:
            # enum/struct aggregate whose path may contain parentheses in generics:  Result::<(), E>::Ok(x)
            d, i = 0, len(rv) - 1
            while i >= 0:
                if rv[i] == ")":
                    d += 1
                elif rv[i] == "(":
                    d -= 1
                    if d == 0:
                        break
                i -= 1
            head = rv[:i]
            mv = re.search(r"::(Ok|Err|Some)$", head)
            if i > 0 and mv and head.count("<") == head.count(">"):
                vals = [self.operand(env, f) for f in self.split_args(rv[i + 1:-1])]
                if len(vals) == 1:
                    return "(%s %s)" % (self.smt.fun("C_" + mv.group(1), 1), vals[0])
        if self.ctor:
            mcl = re.match(r"^\{closure@[^}]*\} \{(.*)\}$", rv)
            if mcl:
                fields = [f.split(":", 1)[1] for f in self.split_args(mcl.group(1)) if ":" in f]
                vals = [self.operand(env, f) for f in fields]
                return "(%s %s)" % (self.smt.fun("C_closure%d" % len(vals), len(vals)), " ".join(vals)) if vals else self._konst("closure_unit")
        # aggregate  Path::Variant { f: op, .. } | Path(op, ..) | (a, b) | [a; n]
        m = re.match(r"^([A-Za-z_][\w:<>, ']*?)\s*\{(.*)\}$", rv)
        if m:
            fields = [f.split(":", 1)[1] for f in self.split_args(m.group(2)) if ":" in f]
            vals = [self.operand(env, f) for f in fields]
            return "(%s %s)" % (self.smt.fun("mk_" + sanitize(m.group(1))[:60], len(vals)), " ".join(vals)) if vals else self._konst(m.group(1))
        m = re.match(r"^([A-Za-z_][\w:<>, ']*?)\((.*)\)$", rv)
        if m and not rv.startswith("("):
            vals = [self.operand(env, f) for f in self.split_args(m.group(2))]
            if self.ctor and len(vals) == 1 and re.search(r"Option::<.*>::Some$", m.group(1)):
                return "(%s %s)" % (self.smt.fun("C_Some", 1), vals[0])
            return "(%s %s)" % (self.smt.fun("mk_" + sanitize(m.group(1))[:60], len(vals)), " ".join(vals)) if vals else self._konst(m.group(1))
        m = re.match(r"^(.+) as (.+) \((.+)\)$", rv)
        if m:
            return self.operand(env, m.group(1))
        return self.operand(env, rv)

    @staticmethod
    def split_args(s):
        out, d, cur = [], 0, ""
        for ch in s:
            if ch in "([{<":
                d += 1
            elif ch in ")]}>":
                d -= 1
            if ch == "," and d == 0:
                out.append(cur.strip())
                cur = ""
            else:
                cur += ch
        if cur.strip():
            out.append(cur.strip())
        return out

    def run(self, body, arg_vals, heap0=None):
        if body.has_loop() and not self.unroll:
            raise ValueError("body %s has a loop: rejected (E3 handles loop-free glue only)" % body.name)
        env0 = {}
        if heap0:
            env0["__heap"] = dict(heap0)
        for i, v in enumerate(arg_vals):
            env0["_%d" % (i + 1)] = v
        results = []
        self._walk(body, "bb0", env0, [], [], results, 0)
        # drop paths whose branch conditions contradict each other (e.g. two switches on one discriminant)
        feasible = []
        for r in results:
            pc = r[0]
            if not pc:
                feasible.append(r)
                continue
            v, _ = solve(self.smt.script("(and true %s)" % " ".join(pc)), timeout=20)
            if v != "unsat":
                feasible.append(r)
        return feasible

    def _walk(self, body, bb, env, pc, calls, results, depth):
        if len(results) > self.max_paths or depth > 400:
            raise ValueError("path explosion in %s" % body.name)
        if depth > 0 and bb in self.stop_blocks:
            results.append((list(pc), "STOP:" + bb, list(calls), dict(env)))
            return
        env = dict(env)
        stmts = body.blocks[bb]
        for st in stmts[:-1]:
            self._stmt(env, st)
        term = stmts[-1] if stmts else "return;"
        if term.startswith("return"):
            results.append((list(pc), env.get("_0", self._konst("unit")), list(calls), dict(env)))
            return
        m = re.match(r"^goto -> (bb\d+);$", term)
        if m:
            return self._walk(body, m.group(1), env, pc, calls, results, depth + 1)
        m = re.match(r"^(?:drop|StorageDead|assert)\(.*\) -> \[(?:return|success): (bb\d+).*\];$", term)
        if m:
            return self._walk(body, m.group(1), env, pc, calls, results, depth + 1)
        m = re.match(r"^switchInt\((.+)\) -> \[(.+)\];$", term)
        if m:
            v = self.operand(env, m.group(1))
            arms = [a.strip() for a in m.group(2).split(",")]
            taken = []

            def lit(c):
                """'true' / 'false' for syntactically constant conditions, else None"""
                c = c.strip()
                if c in ("true", "(not false)"):
                    return "true"
                if c in ("false", "(not true)"):
                    return "false"
                mk = re.match(r"^\(= k_int_(\d+) k_int_(\d+)\)$", c)
                if mk:
                    return "true" if mk.group(1) == mk.group(2) else "false"
                return None

            for a in arms:
                k, tgt = [x.strip() for x in a.split(":")]
                if k == "otherwise":
                    if any(lit(c) == "true" for c in taken):
                        continue  # an earlier arm is always taken
                    rest = [c for c in taken if lit(c) != "false"]
                    cond = "(and true %s)" % " ".join("(not %s)" % c for c in rest) if rest else "true"
                else:
                    is_bool = "bool" in body.locals.get(re.sub(r"^(copy|move) ", "", m.group(1)).strip(), "") or v.startswith("(b2v")
                    if is_bool and k in ("0", "1"):
                        cond = mk_v2b(v) if k == "1" else "(not %s)" % mk_v2b(v)
                    else:
                        cond = "(= %s %s)" % (v, self._konst("int_" + k))
                    taken.append(cond)
                    if lit(cond) == "false":
                        continue
                self._walk(body, tgt, env, pc + ([cond] if lit(cond) != "true" else []), calls, results, depth + 1)
            return
        m = self._split_call(term)
        if m and m[0] is not None:
            lhs, callee, args, nxt = m
            vals = [self.operand(env, a) for a in self.split_args(args)]
            val = self.call(callee, vals, env)
            calls = calls + [(callee, vals, list(pc))]
            self.assign(env, lhs, val)
            return self._walk(body, nxt, env, pc, calls, results, depth + 1)
        if m and m[0] is None:
            return self._walk(body, m[3], env, pc, calls, results, depth + 1)
        if re.match(r"^(_\d+ = )?[\w:<>]*panic\w*(::<.*>)?\(.*\) -> (bb\d+|unwind .*);$", term):
            return  # diverging call (panic): the path ends; reachability of panics is not what these queries decide
        if term.startswith("unreachable") or term.startswith("resume") or term.startswith("abort") or "-> unwind" in term:
            return
        raise ValueError("unsupported terminator in %s %s: %s" % (body.name, bb, term))

    @staticmethod
    def _split_call(term):
        """`lhs = callee(args) -> [return: bbN, ...];`  (callee may contain parentheses in generics)"""
        m = re.search(r"\) -> \[return: (bb\d+)(?:, unwind[^\]]*)?\];$", term)
        if not m:
            return None
        nxt = m.group(1)
        end = m.start()  # index of the closing paren of the argument list
        d = 0
        i = end
        while i >= 0:
            ch = term[i]
            if ch == ")":
                d += 1
            elif ch == "(":
                d -= 1
                if d == 0:
                    break
            i -= 1
        if i < 0:
            return None
        args = term[i + 1:end]
        head = term[:i]
        if " = " in head:
            lhs, callee = head.split(" = ", 1)
            return lhs.strip(), callee.strip(), args, nxt
        return None, head.strip(), args, nxt

    def _stmt(self, env, st):
        if st.startswith("StorageLive") or st.startswith("StorageDead") or st.startswith("nop") or st.startswith("FakeRead") \
                or st.startswith("PlaceMention") or st.startswith("AscribeUserType") or st.startswith("Retag") or st.startswith("Coverage") \
                or st.startswith("ConstEvalCounter") or st.startswith("BackwardIncompatibleDropHint"):
            return
        m = re.match(r"^(.+?) = (.+);$", st)
        if m:
            self.assign(env, m.group(1), self.rvalue(env, m.group(2)))
            return
        m = re.match(r"^discriminant\((.+)\) = (\d+);$", st)
        if m:
            return
        raise ValueError("unsupported statement: %s" % st)

    def call(self, callee, vals, env=None):
        base = re.sub(r"::<.*>$", "", callee)
        for pat, fn in self.models.items():
            if re.search(pat, callee):
                if getattr(fn, "wants_env", False):
                    return fn(self, vals, env)
                return fn(self, vals)
        return "(%s %s)" % (self.smt.fun("call_" + sanitize(base)[-70:], len(vals)), " ".join(vals)) if vals else self._konst("call_" + sanitize(base)[-70:])


def solve(script, timeout=60):
    """z3, cross-checked with cvc5.  Returns ('sat'|'unsat'|'inconclusive', detail)."""
    out = {}
    for name, cmd in (("z3", ["z3", "-in", "-T:%d" % timeout]), ("cvc5", ["cvc5", "--lang", "smt2", "--tlimit=%d" % (timeout * 1000), "--produce-models", "--strings-exp"])):
        try:
            p = subprocess.run(cmd, input=script, stdout=subprocess.PIPE, stderr=subprocess.STDOUT, text=True, timeout=timeout + 10)
            txt = p.stdout
        except Exception as e:  # noqa
            txt = "(error %s)" % e
        first = txt.strip().splitlines()[0] if txt.strip() else ""
        if "(error" in txt and first not in ("sat", "unsat"):
            out[name] = ("inconclusive", txt[:300])
        elif first in ("sat", "unsat"):
            # z3 4.8 prints (error ...) for get-model after unsat: ignore that one
            errs = [l for l in txt.splitlines() if "(error" in l and "model is not available" not in l and "cannot get model" not in l.lower()]
            out[name] = (first if not errs else "inconclusive", txt[:2000])
        else:
            out[name] = ("inconclusive", txt[:300])
    v = set(x[0] for x in out.values())
    if v == {"sat"} or v == {"unsat"}:
        return v.pop(), out
    # quantified axiom: one solver may answer unknown; accept a definite verdict only if the other does not contradict it
    defin = [x[0] for x in out.values() if x[0] in ("sat", "unsat")]
    if len(set(defin)) == 1 and all(x[0] in ("inconclusive",) or x[0] == defin[0] for x in out.values()) and len(defin) == 2:
        return defin[0], out
    return "inconclusive", out


def solve_batch(smt, goals, timeout=120):
    """Decide many goals over ONE script (declarations and assertions of `smt` as they are now) with one z3 and one
    cvc5 process (push / assert / check-sat / pop per goal).  Returns a list of 'sat' | 'unsat' | 'inconclusive', one per
    goal; a goal is definite only if both solvers give the same definite answer.  Any solver error makes the whole
    batch fall back to one `solve` call per goal."""
    if not goals:
        return []
    ints = sorted(set(re.findall(r"\(declare-const (k_int_\d+) V\)", "\n".join(smt.decls))))
    distinct = ["(assert (distinct %s))" % " ".join(ints)] if len(ints) > 1 else []
    head = smt.decls + distinct + ["(assert %s)" % a for a in smt.asserts]
    body = []
    for g in goals:
        body += ["(push 1)", "(assert %s)" % g, "(check-sat)", "(pop 1)"]
    script = "\n".join(head + body) + "\n"
    answers = {}
    for name, cmd in (("z3", ["z3", "-in", "-T:%d" % timeout]), ("cvc5", ["cvc5", "--lang", "smt2", "--incremental", "--strings-exp", "--tlimit-per=%d" % (20 * 1000)])):
        try:
            p = subprocess.run(cmd, input=script, stdout=subprocess.PIPE, stderr=subprocess.STDOUT, text=True, timeout=timeout + 30)
            lines = [l.strip() for l in p.stdout.splitlines() if l.strip()]
        except Exception as e:  # noqa
            lines = ["(error %s)" % e]
        if any("(error" in l for l in lines) or len([l for l in lines if l in ("sat", "unsat", "unknown")]) != len(goals):
            answers = None
            break
        answers[name] = [l for l in lines if l in ("sat", "unsat", "unknown")]
    if answers is None:
        return [solve(smt.script(g))[0] for g in goals]
    out = []
    for a, b in zip(answers["z3"], answers["cvc5"]):
        out.append(a if a == b and a in ("sat", "unsat") else "inconclusive")
    return out
