"""E3 queries for C14 beyond `OpenReplicas::{open_with, close}` (queries.py: c14_open_close), over the store actor (src/actor.rs):

c14_gating
  A. the accessors every handler goes through — `OpenReplicas::{get_mut, ensure_open, replica, replica_if_syncing}` —
     executed on all paths (HashMap lookup: present / absent; the document's `sync` flag symbolic): they succeed
     exactly when the document is open, `replica_if_syncing` exactly when it is open AND sync is enabled.
  B. every handler body of `Actor::on_replica_action` (its closures, async closures and async blocks, found by name in the
     MIR dump, run from their own MIR with every await answered Ready): on every path, an entry is read or written
     (`Replica::{insert, delete_prefix, hash_and_insert}`, `Store::{get_exact, get_many, get_sync_peers}`), a subscriber is
     added / removed, or a reconciliation step is made (`Replica::{insert_remote_entry, sync_initial_message,
     sync_process_message}`) only AFTER the required accessor SUCCEEDED on that path: any open-check for entry access,
     `get_mut` for subscriptions, and `replica_if_syncing` — nothing weaker — for remote inserts and reconciliation.
     `GetMany`, whose check and query sit in the main coroutine joined by `and_then`, is checked on the MIR data flow.
  C. `Actor::close`: the store is told that the document is closed exactly when `OpenReplicas::close` reports that the
     last handle is gone (never while a handle is still held, always when the last one goes).
"""
import re

from mirsmt import Smt, solve, mk_deref, mk_v2b, split_sexpr_args
from exec2 import is_addr
from stdmodels import PMExec, Inconclusive, std_models, _deep, run_coroutine
from queries_c05 import _find, _src, _struct_fields
from queries_ins import _tracing_off


def _verdict(problems):
    if any(p[1] != "inconclusive" for p in problems):
        return "violated"
    return "inconclusive" if problems else "holds"


ENTRY_RW = r"(^|::)Replica::<.*>::(insert|delete_prefix|hash_and_insert)(::<.*>)?$|^store::fs::Store::(get_exact|get_many|get_sync_peers)(::<.*>)?$"
RECONCILE = r"(^|::)Replica::<.*>::(insert_remote_entry|sync_initial_message|sync_process_message)(::<.*>)?$"
SUBSCRIBE = r"(^|::)ReplicaInfo::(subscribe|unsubscribe)(::<.*>)?$"
ACCESSORS = ("get_mut", "ensure_open", "replica", "replica_if_syncing")


def _handler_models(smt):
    models = _tracing_off()
    models.update(std_models(opaque_ok=True))
    for f, n in (("C_Ok", 1), ("C_Err", 1), ("C_Some", 1), ("C_None", 0), ("C_Continue", 1), ("C_Break", 1), ("CE_Poll_Ready", 1), ("CE_Poll_Pending", 0), ("out", 1), ("res", 2),
                 ("acc_val", 1), ("acc_err", 1), ("discr", 1), ("C_pin", 1)):
        smt.fun(f, n)
    for c in ("CLO", "ACTOR", "CX", "UNIT"):
        smt.decls.append("(declare-const %s V)" % c)
    for k in range(8):
        smt.decls.append("(declare-const acc_ok_%d Bool)" % k)

    def m_acc(name):
        def f(ex, v, env):
            k = len([l for l in env.get("__log", ()) if l[0] == "acc"])
            if k >= 8:
                raise Inconclusive("more accessor calls than the query provides for")
            env["__log"] = env.get("__log", ()) + (("acc", name, k),)
            kk = ex._konst("int_%d" % k)
            return [("acc_ok_%d" % k, "(C_Ok (acc_val %s))" % kk), ("(not acc_ok_%d)" % k, "(C_Err (acc_err %s))" % kk)]
        f.wants_env = True
        return f

    def m_payload(kind):
        def f(ex, v, env):
            n = len(env.get("__log", ()))
            env["__log"] = env.get("__log", ()) + (("payload", kind, ex._cur_callee),)
            nn = ex._konst("int_%d" % (3000 + n))
            ex.smt.fun("res", 2)
            return "(res %s %s)" % (nn, v[0] if v else "UNIT")
        f.wants_env = True
        return f

    def m_poll(ex, v, env):
        return "(CE_Poll_Ready (out %s))" % _deep(ex, env, v[0])
    m_poll.wants_env = True
    for a in ACCESSORS:
        models[r"^OpenReplicas::%s$" % a] = m_acc(a)
    models[ENTRY_RW] = m_payload("entry")
    models[RECONCILE] = m_payload("reconcile")
    models[SUBSCRIBE] = m_payload("subscribe")
    models[r" as Future>::poll$"] = m_poll
    return models


class HExec(PMExec):
    """remembers the callee of the call being modelled (the payload models log it)"""

    def call(self, callee, vals, env=None):
        self._cur_callee = callee
        return super().call(callee, vals, env)


def _check_paths(paths, where, problems, smt, stats):
    for pc, ret, env in paths:
        log = env.get("__log", ())
        pays = [(i, l) for i, l in enumerate(log) if l[0] == "payload"]
        if not pays:
            continue
        stats["nq"] += 1
        v, _ = solve(smt.script("(and true %s)" % " ".join(pc)))
        if v == "unsat":
            continue
        stats["cases"] += 1
        flat = " ".join(pc)
        for i, (_p, kind, callee) in pays:
            before = [l for l in log[:i] if l[0] == "acc" and ("acc_ok_%d" % l[2]) in flat.replace("(not acc_ok_%d)" % l[2], "")]
            names = {l[1] for l in before}
            short = PMExec._strip_generics(callee).split("::")[-1]
            stats["seen"].add(short)
            if kind == "reconcile" and "replica_if_syncing" not in names:
                problems.append(("reconciliation and remote-insert operations run only after replica_if_syncing succeeded (document open AND sync enabled)", "sat",
                                 "%s: %s after %s" % (where, short, sorted(names) or "no successful accessor")))
            elif kind == "entry" and not names:
                problems.append(("entries are read or written only after a successful open-check of the document", "sat", "%s: %s without a successful accessor" % (where, short)))
            elif kind == "subscribe" and "get_mut" not in names:
                problems.append(("subscriptions are changed only on the open document's own state (get_mut succeeded)", "sat", "%s: %s after %s" % (where, short, sorted(names))))


def q_c14_gating(bodies):
    name = "c14_gating"
    problems, funcs = [], set()
    stats = {"nq": 0, "cases": 0, "seen": set()}
    src = _src("src/actor.rs")
    orf = _struct_fields(src, "OpenReplica")
    # ---------------- A. accessor semantics
    if not orf or "sync" not in orf:
        return dict(name=name, property="C14", verdict="inconclusive", detail="OpenReplica layout: %s" % orf, functions=[])
    for acc in ACCESSORS:
        hits = _find(bodies, r"^actor::<impl at [^>]*>::%s$" % acc, r"^_1: &(mut )?OpenReplicas")
        if len(hits) != 1:
            problems.append(("OpenReplicas::%s found" % acc, "inconclusive", "%d bodies" % len(hits)))
            continue
        smt = Smt()
        for f, n in (("C_Ok", 1), ("C_Err", 1), ("C_Some", 1), ("C_None", 0), ("C_Continue", 1), ("C_Break", 1), ("discr", 1), ("ctx_err", 1), ("mk_replica", 2), ("mk_instance", 2)):
            smt.fun(f, n)
        for c in ("SELF", "NS", "STORE", "STATE", "UNIT", "INFO", "CAPID"):
            smt.decls.append("(declare-const %s V)" % c)
        smt.decls.append("(declare-const present Bool)")
        smt.decls.append("(declare-const sync_on Bool)")
        models = _tracing_off()
        models.update(std_models())
        models.update({
            r"^HashMap::<keys::NamespaceId, OpenReplica>::get_mut::<": lambda ex, v: [("present", "(C_Some STATE)"), ("(not present)", "C_None")],
            r"^HashMap::<keys::NamespaceId, OpenReplica>::contains_key::<": lambda ex, v: [("present", "(b2v true)"), ("(not present)", "(b2v false)")],
            r" as anyhow::Context<.*>>::context::<": lambda ex, v: ("(C_Ok %s)" % split_sexpr_args(v[0])[0]) if v[0].startswith("(C_Some ") else "(C_Err (ctx_err %s))" % v[1],
            r"^StoreInstance::<'_>::new$": lambda ex, v: "(mk_instance %s %s)" % (v[0], v[1]),
            r"^sync::Replica::<'_, .*>::new$|^sync::Replica::<.*>::new$": lambda ex, v: "(mk_replica %s %s)" % (v[0], v[1]),
            r"^sync::Capability::id$": lambda ex, v: "CAPID",
            r"anyhow::__private::format_err$|anyhow::__private::must_use$|Arguments::<'_>::from_str$|^anyhow::Error::msg::<": lambda ex, v: "UNIT",
            r"^anyhow::__private::not(::<.*>)?$": lambda ex, v: "(b2v (not %s))" % mk_v2b(v[0]),
        })
        inline = [(r"^OpenReplicas::get_mut$", r"^actor::<impl at [^>]*>::get_mut$", r"^_1: &mut OpenReplicas"),
                  (r"^OpenReplicas::is_open$", r"^actor::<impl at [^>]*>::is_open$", r"^_1: &OpenReplicas")]
        ex = PMExec(bodies, smt, models=models, inline=[r for r in inline if not re.search(r[0][1:-1].split("::")[-1] + "$", acc)], max_paths=500)
        heap0 = {("STATE", str(orf.index("sync"))): "(b2v sync_on)", ("STATE", str(orf.index("info"))): "INFO"}
        try:
            args = ["SELF", "NS", "STORE"] if acc == "replica" else (["SELF", "(ref NS)", "STORE"] if acc == "replica_if_syncing" else ["SELF", "(ref NS)"])
            paths = ex.run(hits[0], args, heap0=heap0, feasibility=False)
        except (Inconclusive, ValueError, AssertionError, KeyError, IndexError, RecursionError) as e:
            problems.append(("OpenReplicas::%s can be followed" % acc, "inconclusive", "%r" % (e,)))
            continue
        funcs |= ex.inlined
        for pc, ret, calls, env in paths:
            stats["nq"] += 1
            v, _ = solve(smt.script("(and true %s)" % " ".join(pc)))
            if v == "unsat":
                continue
            stats["cases"] += 1
            ok = ret.startswith("(C_Ok")
            flat = " ".join(pc)
            is_present = "(not present)" not in flat and "present" in flat
            sync = "(not sync_on)" not in flat and "sync_on" in flat
            want = is_present and (sync if acc == "replica_if_syncing" else True)
            if acc == "replica_if_syncing" and is_present and "sync_on" not in flat:
                problems.append(("replica_if_syncing looks at the document's sync flag", "sat", "path=%s" % pc[:4]))
                continue
            if ok != want:
                problems.append(("OpenReplicas::%s succeeds exactly when the document is open%s" % (acc, " and sync is enabled" if acc == "replica_if_syncing" else ""), "sat", "path=%s ret=%s" % (pc[:4], ret[:50])))
    # ---------------- B. handler bodies
    hbodies = [(n, b) for n, bs in bodies.items() if re.search(r"^actor::<impl at [^>]*>::on_replica_action::\{closure#0\}(::\{closure#\d+\})+$", n) for b in bs]
    main = _find(bodies, r"^actor::<impl at [^>]*>::on_replica_action::\{closure#0\}$")
    if len(main) != 1 or len(hbodies) < 10:
        problems.append(("the handler bodies of on_replica_action are found", "inconclusive", "%d / %d" % (len(main), len(hbodies))))
    for n, b in hbodies:
        text = "\n".join(st for blk in b.blocks.values() for st in blk)
        if not (re.search(r"Replica::<.*>::(insert|delete_prefix|hash_and_insert|insert_remote_entry|sync_initial_message|sync_process_message)(::<[^(]*>)?\(", text)
                or re.search(r"store::fs::Store::(get_exact|get_many|get_sync_peers)(::<[^(]*>)?\(", text) or re.search(r"ReplicaInfo::(subscribe|unsubscribe)\(", text)):
            continue
        smt = Smt()
        models = _handler_models(smt)
        ex = HExec(bodies, smt, models=models, enums={"Poll": ["Ready", "Pending"]}, max_paths=3000, max_depth=20000)
        ex._cur_callee = ""
        for i, l in enumerate(["TRACE", "DEBUG", "INFO", "WARN", "ERROR"]):
            ex.discr_of["(fld_0 k_tracing__Level__%s)" % l] = i
        where = n.split("on_replica_action::")[-1]
        try:
            if re.match(r"^_1: Pin<&mut ", b.args):
                ex.smt.fun("CO", 1)
                cell = "(CO k_cell)"
                ex._konst("cell")
                ex.discr_of["(deref %s)" % cell] = 0
                res = []
                ex.inlined.add(b.name)
                ex._walk(b, "bb0", {"_1": "(C_pin %s)" % cell, "_2": "CX"}, [], [], res, 0)
                paths = [(pc, ret, env) for pc, ret, calls, env in res]
            else:
                res = ex.run(b, ["CLO", "ACTOR"], feasibility=False)
                paths = [(pc, ret, env) for pc, ret, calls, env in res]
        except (Inconclusive, ValueError, AssertionError, KeyError, IndexError, RecursionError) as e:
            problems.append(("every handler of on_replica_action can be followed", "inconclusive", "%s: %r" % (where, e)))
            continue
        funcs |= ex.inlined
        if "get_many" in text and "ensure_open" not in text and "OpenReplicas::" not in text:
            # GetMany: the query runs inside `ensure_open(..).and_then(|_| store.get_many(..))` of the main coroutine
            clo = re.match(r"^_1: (\{closure@[^}]*\})", b.args)
            ok = False
            if clo and len(main) == 1:
                mt = [(bn, blk[-1]) for bn, blk in main[0].blocks.items() if blk and "and_then::<" in blk[-1] and clo.group(1) in blk[-1]]
                if len(mt) == 1:
                    recv = re.search(r"and_then::<.*>\((?:move|copy) (_\d+),", mt[0][1])
                    if recv:
                        defs = [blk[-1] for blk in main[0].blocks.values() if blk and re.match(r"^%s = " % re.escape(recv.group(1)), blk[-1])]
                        alldefs = [st for blk in main[0].blocks.values() for st in blk if re.match(r"^%s = " % re.escape(recv.group(1)), st)]
                        ok = len(alldefs) == 1 and len(defs) == 1 and re.match(r"^%s = OpenReplicas::ensure_open\(" % re.escape(recv.group(1)), defs[0]) is not None
            stats["seen"].add("get_many")
            if not ok:
                problems.append(("entries are read or written only after a successful open-check of the document", "sat", "%s: get_many is not run through ensure_open(..).and_then(..)" % where))
            continue
        _check_paths(paths, where, problems, smt, stats)
    need = {"insert", "delete_prefix", "insert_remote_entry", "sync_initial_message", "sync_process_message", "get_exact", "get_many", "get_sync_peers", "subscribe", "unsubscribe"}
    if not need <= stats["seen"]:
        problems.append(("all entry / subscription / reconciliation handlers were recognised", "inconclusive", "not seen: %s" % sorted(need - stats["seen"])))
    # ---------------- C. Actor::close
    cl = _find(bodies, r"^actor::<impl at [^>]*>::close$", r"^_1: &mut Actor")
    if len(cl) != 1:
        problems.append(("Actor::close found", "inconclusive", "%d" % len(cl)))
    else:
        smt = Smt()
        for c in ("ACTOR", "NS", "UNIT"):
            smt.decls.append("(declare-const %s V)" % c)
        smt.decls.append("(declare-const last_gone Bool)")
        models = _tracing_off()
        models.update(std_models())

        def m_store_close(ex, v, env):
            env["__log"] = env.get("__log", ()) + (("store_close", v[1]),)
            return "UNIT"
        m_store_close.wants_env = True
        models.update({
            r"^OpenReplicas::close$": lambda ex, v: [("last_gone", "(b2v true)"), ("(not last_gone)", "(b2v false)")],
            r"^store::fs::Store::close_replica$": m_store_close,
        })
        ex = PMExec(bodies, smt, models=models, max_paths=200)
        try:
            paths = ex.run(cl[0], ["ACTOR", "NS"], feasibility=False)
            funcs |= ex.inlined
            for pc, ret, calls, env in paths:
                stats["cases"] += 1
                sc = [l for l in env.get("__log", ()) if l[0] == "store_close"]
                gone = "last_gone" in pc
                if gone != (len(sc) == 1) or (sc and sc[0][1] != "NS") or mk_v2b(ret) != ("true" if gone else "false"):
                    problems.append(("the store is told that a document is closed exactly when its last handle is released, and close reports that", "sat", "path=%s store.close_replica calls=%d ret=%s" % (pc[:3], len(sc), ret[:30])))
        except (Inconclusive, ValueError, AssertionError, KeyError, IndexError, RecursionError) as e:
            problems.append(("Actor::close can be followed", "inconclusive", "%r" % (e,)))
    # ---------------- D. who tells the store that a document is closed (MIR call graph of the actor module)
    callers = sorted(set(n for n, bs in bodies.items() if n.startswith("actor::") for b in bs for blk in b.blocks.values() for st in blk
                         if re.search(r"= store::fs::Store::close_replica\(", st)))
    stats["cases"] += 1
    extra = [c for c in callers if not re.search(r"^actor::<impl at [^>]*>::(close|close_all)$", c)]   # close_all drains every open state (shutdown)
    if extra:
        problems.append(("the store is told that a document is closed only by Actor::close, i.e. only together with the release of the LAST handle (otherwise a document that is still open in the actor can be removed and re-created under it)", "sat",
                         "Store::close_replica is also called from %s" % [c.split(">::", 1)[-1] for c in extra][:3]))
    problems.sort(key=lambda p: p[1] == "inconclusive")
    return dict(name=name, property="C14", verdict=_verdict(problems), detail="feasible paths=%d, handlers recognised=%s; problems: %s" % (stats["cases"], sorted(stats["seen"]), problems[:4] or "none"),
                functions=sorted(funcs) + ["std HashMap get_mut / contains_key, Replica / Store methods (payloads: logged), futures answered Ready"], queries=stats["nq"], cases=stats["cases"], witness="c14gate",
                check_message=(problems[0][0] if problems else "handlers reach entries, subscriptions and reconciliation only through the required open / sync checks"))


QUERIES_C14 = [q_c14_gating]
