"""E3 query for C05: which index, which range and which residual filters a query is turned into — `IndexKind::from(&Query)`
(src/store/util.rs) and `QueryIterator::new` (src/store/fs/query.rs), executed (Exec2) for every query shape
  kind in {flat sorted by author-key, flat sorted by key-author, latest-per-key} x author filter in {any, exact A}
  x key filter in {any, exact K, prefix K}                                   (18 shapes; A, K symbolic).
What `next()` does with a (range, residual filters) pair is c05_query_next's business and what each range contains is the
bounds harnesses' (Kani); this query closes the gap between them and the query the user wrote.  Decided per path: the
configuration built is SOUND for the query —
  records index (author-then-key order): the range is `author_key(ns, A, f)` / `namespace(ns)` over the RECORDS table and
      range-filter AND residual key filter together are exactly the query's key filter; a range that fixes no author is only
      used when the query's author filter is `any`; the order is only used when the query asks for author-key order or a
      single author is selected (then it IS key order);
  by-key index (key-then-author order): the range is `ByKeyBounds::new(ns, the query's key filter)` over the by-key index
      and the records table, the residual author filter is the query's, the latest-per-key selector is present exactly
      for latest-per-key queries; the order is only used when the query asks for key-author order, latest-per-key, or ... ;
and offset / count start at 0 with the query stored unchanged.
"""
import itertools
import re

from mirsmt import Smt, solve, mk_deref, mk_v2b, split_sexpr_args
from exec2 import is_addr
from stdmodels import PMExec, Inconclusive, std_models, _deep
from queries_c05 import _find, _src, _struct_fields, _enum_variants


def _verdict(problems):
    if any(p[1] != "inconclusive" for p in problems):
        return "violated"
    return "inconclusive" if problems else "holds"


def q_c05_query_new(bodies):
    name = "c05_query_new"
    newb = _find(bodies, r"^query::<impl at [^>]*>::new$", r"^_1: ReadOnlyTables")
    fromb = _find(bodies, r"^store::util::<impl at [^>]*>::from$", r"^_1: &Query")
    st_src = _src("src/store.rs")
    qf = _struct_fields(st_src, "Query")
    qk = _enum_variants(st_src, "QueryKind")
    sb = _enum_variants(st_src, "SortBy")
    flat = _struct_fields(st_src, "FlatQuery")
    m = re.search(r"pub struct ReadOnlyTables \{(.*?)\n\}", _src("src/store/fs/tables.rs"), re.S)
    tf = re.findall(r"pub (\w+):", m.group(1)) if m else []
    if len(newb) != 1 or len(fromb) != 1 or not qf or not qk or not sb or not flat or "records" not in tf or "records_by_key" not in tf:
        return dict(name=name, property="C05", verdict="inconclusive", detail="bodies / layouts not found (%d %d %s %s %s %s)" % (len(newb), len(fromb), qf, qk, sb, flat), functions=[])
    need = ["kind", "filter_author", "filter_key"]
    if any(f not in qf for f in need) or [v for v, _ in qk] != ["Flat", "SingleLatestPerKey"] or sorted(v for v, _ in sb) != ["AuthorKey", "KeyAuthor"] or "sort_by" not in flat:
        return dict(name=name, property="C05", verdict="inconclusive", detail="Query layout changed: %s %s %s %s" % (qf, qk, sb, flat), functions=[])
    problems, nq, ncases, funcs = [], 0, 0, set()
    enums = {"QueryKind": ["Flat", "SingleLatestPerKey"], "SortBy": [v for v, _ in sb], "AuthorFilter": [v for v, _ in _enum_variants(st_src, "AuthorFilter")],
             "KeyFilter": [v for v, _ in _enum_variants(st_src, "KeyFilter")], "IndexKind": ["AuthorKey", "KeyAuthor"], "QueryRange": ["AuthorKey", "KeyAuthor"]}
    if enums["AuthorFilter"] != ["Any", "Exact"] or sorted(enums["KeyFilter"]) != ["Any", "Exact", "Prefix"]:
        return dict(name=name, property="C05", verdict="inconclusive", detail="filter enums changed: %s" % enums, functions=[])
    shapes = list(itertools.product(["flat_ak", "flat_ka", "latest"], ["Any", "Exact"], ["Any", "Exact", "Prefix"]))
    for kind, af, kf in shapes:
        smt = Smt()
        for f, n in (("C_Ok", 1), ("C_Err", 1), ("C_Some", 1), ("C_None", 0), ("C_Continue", 1), ("C_Break", 1), ("discr", 1), ("C_rb_author_key", 3), ("C_rb_namespace", 1), ("C_bk_new", 2),
                     ("C_rrange", 2), ("C_bkrange", 3), ("mk_flat", 1), ("mk_latest", 0), ("CE_QueryKind_Flat", 1), ("CE_QueryKind_SingleLatestPerKey", 1), ("CE_AuthorFilter_Exact", 1),
                     ("CE_KeyFilter_Exact", 1), ("CE_KeyFilter_Prefix", 1), ("mk_query", len(qf)), ("mk_tables", len(tf)), ("C_selector_default", 0)):
            smt.fun(f, n)
        for c in ("NS", "A", "K", "LIMIT", "OFFSET", "INCL", "DIR", "RERR", "UNIT") + tuple("TBL_%s" % t for t in tf):
            smt.decls.append("(declare-const %s V)" % c)
        smt.decls.append("(declare-const range_ok Bool)")
        sort = "CE_SortBy_AuthorKey" if kind == "flat_ak" else "CE_SortBy_KeyAuthor"
        flatv = [None] * len(flat)
        for i, f in enumerate(flat):
            flatv[i] = sort if f == "sort_by" else "FLAT_%s" % f
            if f != "sort_by":
                smt.decls.append("(declare-const FLAT_%s V)" % f)
        smt.fun("mk_flatq", len(flat))
        kindv = "(CE_QueryKind_Flat (mk_flatq %s))" % " ".join(flatv) if kind != "latest" else "(CE_QueryKind_SingleLatestPerKey UNIT)"
        afv = "CE_AuthorFilter_Any" if af == "Any" else "(CE_AuthorFilter_Exact A)"
        kfv = "CE_KeyFilter_Any" if kf == "Any" else "(CE_KeyFilter_%s K)" % kf
        smt.fun("CE_AuthorFilter_Any", 0)
        smt.fun("CE_KeyFilter_Any", 0)
        smt.fun("CE_SortBy_AuthorKey", 0)
        smt.fun("CE_SortBy_KeyAuthor", 0)
        vals = {"kind": kindv, "filter_author": afv, "filter_key": kfv, "limit": "LIMIT", "offset": "OFFSET", "include_empty": "INCL", "sort_direction": "DIR"}
        for f in qf:
            if f not in vals:
                smt.decls.append("(declare-const Q_%s V)" % f)
                vals[f] = "Q_%s" % f
        query = "(mk_query %s)" % " ".join(vals[f] for f in qf)
        tables = "(mk_tables %s)" % " ".join("TBL_%s" % t for t in tf)
        models = std_models()

        def fork(okval):
            return [("range_ok", "(C_Ok %s)" % okval), ("(not range_ok)", "(C_Err RERR)")]

        def m_then(ex, v, env):
            b = mk_v2b(v[0])
            if b == "true":
                return "(C_Some C_selector_default)"
            if b == "false":
                return "C_None"
            raise Inconclusive("bool::then on a symbolic flag")
        m_then.wants_env = True

        def m_clone(ex, v, env):
            return _deep(ex, env, v[0])
        m_clone.wants_env = True

        def m_rr(ex, v, env):
            return fork("(C_rrange %s %s)" % (_deep(ex, env, v[0]) if not is_addr(v[0]) else ex.load(env, v[0]), v[1]))
        m_rr.wants_env = True
        models.update({
            r"^<KeyFilter as Clone>::clone$|^<AuthorFilter as Clone>::clone$": m_clone,
            r"^RecordsBounds::author_key$": lambda ex, v: "(C_rb_author_key %s %s %s)" % (v[0], v[1], v[2]),
            r"^RecordsBounds::namespace$": lambda ex, v: "(C_rb_namespace %s)" % v[0],
            r"^ByKeyBounds::new$": None,
            r"^RecordsRange::<'static>::with_bounds_static$|^RecordsRange::<'_>::with_bounds_static$": m_rr,
            r"^RecordsByKeyRange::with_bounds$": lambda ex, v: fork("(C_bkrange %s %s %s)" % (v[0], v[1], v[2])),
            r"^core::bool::<impl bool>::then::<LatestPerKeySelector, ": m_then,
        })

        def m_bk(ex, v, env):
            return "(C_bk_new %s %s)" % (v[0], _deep(ex, env, v[1]))
        m_bk.wants_env = True
        models[r"^ByKeyBounds::new$"] = m_bk
        ex = PMExec(bodies, smt, models=models, enums=enums, max_paths=500,
                    inline=[(r"^<IndexKind as From<&Query>>::from$", r"^store::util::<impl at [^>]*>::from$", r"^_1: &Query")])
        try:
            paths = ex.run(newb[0], [tables, "NS", query], feasibility=False)
        except (Inconclusive, ValueError, AssertionError, KeyError, IndexError, RecursionError) as e:
            problems.append(("QueryIterator::new can be followed for every query shape", "inconclusive", "%s/%s/%s: %r" % (kind, af, kf, e)))
            continue
        funcs |= ex.inlined
        for pc, ret, calls, env in paths:
            nq += 1
            v, _ = solve(smt.script("(and true %s)" % " ".join(pc)))
            if v == "unsat":
                continue
            ncases += 1
            tag = "kind=%s author=%s key=%s" % (kind, af, kf)
            if "(not range_ok)" in " ".join(pc):
                if not ret.startswith("(C_Err"):
                    problems.append(("a failing range is reported", "sat", tag))
                continue
            if not ret.startswith("(C_Ok (mk_QueryIterator "):
                problems.append(("new answers with a QueryIterator", "sat", tag + " ret=%s" % ret[:80]))
                continue
            qi = split_sexpr_args(split_sexpr_args(ret)[0])
            qif = _struct_fields(_src("src/store/fs/query.rs"), "QueryIterator")
            if not qif or len(qi) != len(qif):
                problems.append(("QueryIterator layout", "inconclusive", str(qif)))
                continue
            rng, q2, off, cnt = (qi[qif.index(f)] for f in ("range", "query", "offset", "count"))
            if q2 != query or off != "k_0_u64" or cnt != "k_0_u64":
                problems.append(("the iterator starts at offset 0 / count 0 with the query unchanged", "sat", tag + " offset=%s count=%s" % (off, cnt)))
                continue
            sound = False
            why = ""
            if rng.startswith("(CE_QueryRange_AuthorKey "):
                r, resid = split_sexpr_args(rng)
                mm = re.match(r"^\(C_rrange (\S+) (.+)\)$", r)
                if mm and mm.group(1) == "TBL_records":
                    b = mm.group(2)
                    key_ok = author_ok = False
                    if b.startswith("(C_rb_author_key "):
                        bns, ba, bf = split_sexpr_args(b)
                        author_ok = bns == "NS" and af == "Exact" and ba == "A"
                        key_ok = (bf == kfv and resid in ("CE_KeyFilter_Any", kfv)) or (bf == "CE_KeyFilter_Any" and resid == kfv)
                    elif b == "(C_rb_namespace NS)":
                        author_ok = af == "Any"
                        key_ok = resid == kfv
                    order_ok = kind == "flat_ak" or (kind == "flat_ka" and af == "Exact")
                    sound = key_ok and author_ok and order_ok
                    why = "records index: key filter ok=%s author ok=%s order ok=%s" % (key_ok, author_ok, order_ok)
                else:
                    why = "records range not over the records table: %s" % r[:80]
            elif rng.startswith("(CE_QueryRange_KeyAuthor "):
                qrf = ["range", "author_filter", "selector"]
                parts = split_sexpr_args(rng)
                r, afr, sel = parts[0], parts[1], parts[2]
                want_r = "(C_bkrange TBL_records_by_key TBL_records (C_bk_new NS %s))" % kfv
                sel_ok = (sel == "(C_Some C_selector_default)") == (kind == "latest") and sel in ("(C_Some C_selector_default)", "C_None")
                order_ok = kind in ("flat_ka", "latest")
                sound = r == want_r and afr == afv and sel_ok and order_ok
                why = "by-key index: range ok=%s author filter ok=%s selector ok=%s order ok=%s" % (r == want_r, afr == afv, sel_ok, order_ok)
            else:
                why = "range %s" % rng[:60]
            if not sound:
                problems.append(("the index, range and residual filters a query is turned into select exactly the entries the query's author and key filters describe, in the order it asks for (latest-per-key: by key, with the selector)", "sat", tag + ": " + why))
    problems.sort(key=lambda p: p[1] == "inconclusive")
    return dict(name=name, property="C05", verdict=_verdict(problems), detail="query shapes=%d, feasible paths=%d; problems: %s" % (len(shapes), ncases, problems[:4] or "none"),
                functions=sorted(funcs) + ["RecordsBounds::{author_key, namespace}, ByKeyBounds::new (Kani harnesses bounds_*), RecordsRange / RecordsByKeyRange constructors (symbolic)"],
                queries=nq, cases=ncases, witness="c05",
                check_message=(problems[0][0] if problems else "every query shape is turned into a sound index / range / filter configuration"))


QUERIES_C05NEW = [q_c05_query_new]
