"""E3 queries for C16 beyond `remove_replica` (queries.py: c16_remove_tables):

c16_content_hashes — "the set of content hashes the store reports for garbage-collection protection is exactly the set of
  hashes of entries currently held in any document": `Store::content_hashes`, `ContentHashesIterator::all` and
  `ContentHashesIterator::next` executed (Exec2); the records table is a window over K <= 3 rows (each an opaque entry —
  equal hashes, deletion markers and rows of several documents are just rows — or a storage error).  `next()` is driven
  until it returns None; on every path the outputs are exactly one item per row, in table order: `Ok(content_hash(row))`
  for an entry, the error for an error row, and None only after the last row.  The iterator is built over ALL rows of
  the RECORDS table of a snapshot of the store.
c16_open_guard — "removing a document is refused while it is open": every way the store opens a document
  (`open_replica`, `load_replica_info`, `new_replica` through them) marks it in `open_replicas` before handing it out,
  only `close_replica` unmarks it (exactly the closed document), `remove_replica` refuses a marked document before
  touching any table.
"""
import re

from mirsmt import Smt, solve, mk_deref, split_sexpr_args
from exec2 import is_addr
from stdmodels import PMExec, Inconclusive, std_models, _deep, seq_next
from queries_c05 import _find, _src, _struct_fields


def _verdict(problems):
    if any(p[1] != "inconclusive" for p in problems):
        return "violated"
    return "inconclusive" if problems else "holds"


def _tables_fields():
    m = re.search(r"pub struct Tables<'tx> \{(.*?)\n\}", _src("src/store/fs/tables.rs"), re.S)
    return re.findall(r"pub (\w+):", m.group(1)) if m else []


def q_c16_content_hashes(bodies):
    name = "c16_content_hashes"
    nxt = _find(bodies, r"^store::fs::<impl at [^>]*>::next$", r"^_1: &mut ContentHashesIterator")
    allb = _find(bodies, r"^store::fs::<impl at [^>]*>::all$", r"ContentHashesIterator")
    top = _find(bodies, r"^store::fs::<impl at [^>]*>::content_hashes$", r"^_1: &mut store::fs::Store")
    fields = _struct_fields(_src("src/store/fs.rs"), "ContentHashesIterator")
    if len(nxt) != 1 or len(allb) != 1 or len(top) != 1 or not fields:
        return dict(name=name, property="C16", verdict="inconclusive", detail="bodies / layout not found (%d %d %d %s)" % (len(nxt), len(allb), len(top), fields), functions=[])
    problems, nq, ncases, funcs = [], 0, 0, set()
    # ---- A. next() driven to exhaustion
    for K in (0, 1, 2, 3):
        for err_at in [None] + list(range(K)):
            smt = Smt()
            for f, n in (("C_Ok", 1), ("C_Err", 1), ("C_Some", 1), ("C_None", 0), ("C_Continue", 1), ("C_Break", 1), ("C_seq", 1), ("hash_of", 1), ("discr", 1)):
                smt.fun(f, n)
            for c in ("SELF", "ROWERR", "UNIT"):
                smt.decls.append("(declare-const %s V)" % c)
            for i in range(K):
                smt.decls.append("(declare-const E%d V)" % i)
            rows = ["(C_Err ROWERR)" if i == err_at else "(C_Ok E%d)" % i for i in range(K)]
            models = std_models()
            models.update({
                r"^<RecordsRange<'_> as Iterator>::next$": models[r"^<std::vec::IntoIter<.*> as Iterator>::next$|^<std::slice::Iter<'_, .*> as Iterator>::next$|^<std::ops::Range<usize> as Iterator>::next$"],
                r"^sync::SignedEntry::content_hash$": lambda ex, v: "(hash_of %s)" % mk_deref(v[0]),
                r"^<iroh_blobs::Hash as PartialEq>::eq$|^<std::option::Option<iroh_blobs::Hash> as PartialEq>::eq$": None,
            })
            del models[r"^<iroh_blobs::Hash as PartialEq>::eq$|^<std::option::Option<iroh_blobs::Hash> as PartialEq>::eq$"]
            ex = PMExec(bodies, smt, models=models, max_paths=500, max_depth=5000)
            env0 = {}
            rng = ex.new_seq(env0, rows)
            heap0 = {("SELF", str(fields.index("range"))): rng}
            for i, f in enumerate(fields):
                if f != "range":
                    smt.decls.append("(declare-const FIELD_%s V)" % f)
                    heap0[("SELF", str(i))] = "FIELD_%s" % f
            env0["__heap"] = heap0
            # drive: list of (pc, env, outputs)
            states = [([], env0, [])]
            done = []
            try:
                for step in range(K + 2):
                    nxt_states = []
                    for pc, env, outs in states:
                        e0 = {k: v for k, v in env.items() if k.startswith("__")}
                        res = []
                        e0["_1"] = "SELF"
                        ex._walk(nxt[0], "bb0", e0, list(pc), [], res, 0)
                        for pc2, ret, calls, env2 in res:
                            if ret == "PANIC":
                                done.append((pc2, env2, outs + ["PANIC"]))
                            elif ret == "C_None":
                                done.append((pc2, env2, outs + ["C_None"]))
                            else:
                                nxt_states.append((pc2, env2, outs + [ret]))
                    states = nxt_states
                    if not states:
                        break
                if states:
                    problems.append(("the iteration over K rows ends within K + 1 calls", "sat", "rows=%d: still producing after %d calls" % (K, K + 2)))
            except (Inconclusive, ValueError, AssertionError, KeyError, IndexError, RecursionError) as e:
                problems.append(("ContentHashesIterator::next can be followed", "inconclusive", "K=%d err_at=%s: %r" % (K, err_at, e)))
                continue
            funcs |= ex.inlined
            want = [("(C_Some (C_Err ROWERR))" if i == err_at else "(C_Some (C_Ok (hash_of E%d)))" % i) for i in range(K)] + ["C_None"]
            for pc, env, outs in done:
                nq += 1
                v, _ = solve(smt.script("(and true %s)" % " ".join(pc)))
                if v == "unsat":
                    continue
                ncases += 1
                if outs != want:
                    problems.append(("content_hashes reports exactly one item per row of the records table, in order — the content hash of every entry held (equal hashes and deletion markers included), the error of an unreadable row — and ends only after the last row",
                                     "sat", "rows=%d error row=%s path=%s got=%s" % (K, err_at, pc[:3], [o[:40] for o in outs])))
    # ---- B. the iterator is built over all rows of the records table of a snapshot
    smt = Smt()
    for f, n in (("C_Ok", 1), ("C_Err", 1), ("C_Continue", 1), ("C_Break", 1), ("C_allrows", 1), ("discr", 1)):
        smt.fun(f, n)
    for c in ("STORE", "SNAP", "SNAPERR", "RANGEERR", "TABLE"):
        smt.decls.append("(declare-const %s V)" % c)
    smt.decls.append("(declare-const snap_ok Bool)")
    smt.decls.append("(declare-const range_ok Bool)")
    models = std_models()
    st = {}

    def m_all_static(ex, v, env):
        st.setdefault("tables", []).append(_deep(ex, env, v[0]) if not is_addr(v[0]) else v[0])
        return [("range_ok", "(C_Ok (C_allrows %s))" % v[0]), ("(not range_ok)", "(C_Err RANGEERR)")]
    m_all_static.wants_env = True
    models.update({
        r"^store::fs::Store::snapshot_owned$": lambda ex, v: [("snap_ok", "(C_Ok SNAP)"), ("(not snap_ok)", "(C_Err SNAPERR)")],
        r"^RecordsRange::<'static>::all_static$|^RecordsRange::<'_>::all_static$": m_all_static,
    })
    tf = None
    m = re.search(r"pub struct ReadOnlyTables \{(.*?)\n\}", _src("src/store/fs/tables.rs"), re.S)
    if m:
        tf = re.findall(r"pub (\w+):", m.group(1))
    if not tf or "records" not in tf:
        problems.append(("layout of ReadOnlyTables", "inconclusive", str(tf)))
    else:
        ex = PMExec(bodies, smt, models=models, inline=[(r"^ContentHashesIterator::all$", r"^store::fs::<impl at [^>]*>::all$", r"ContentHashesIterator")], max_paths=200)
        try:
            paths = ex.run(top[0], ["STORE"], feasibility=False)
            funcs |= ex.inlined
            for pc, ret, calls, env in paths:
                nq += 1
                v, _ = solve(smt.script("(and true %s)" % " ".join(pc)))
                if v == "unsat":
                    continue
                ncases += 1
                if "(not snap_ok)" in pc or "(not range_ok)" in pc:
                    if not ret.startswith("(C_Err"):
                        problems.append(("a failing snapshot / scan is reported", "sat", str(pc[:3])))
                    continue
                want_tbl = "(ref (fld_%d SNAP))" % tf.index("records")
                ok = ret.startswith("(C_Ok ") and ("(C_allrows %s)" % want_tbl) in ret
                if not ok:
                    problems.append(("content_hashes iterates over ALL rows of the RECORDS table of a snapshot of the store", "sat", "ret=%s" % ret[:160]))
        except (Inconclusive, ValueError, AssertionError, KeyError, IndexError, RecursionError) as e:
            problems.append(("Store::content_hashes can be followed", "inconclusive", "%r" % (e,)))
    problems.sort(key=lambda p: p[1] == "inconclusive")
    return dict(name=name, property="C16", verdict=_verdict(problems), detail="feasible paths=%d; problems: %s" % (ncases, problems[:4] or "none"),
                functions=sorted(funcs) + ["RecordsRange::next / all_static (modelled: a window over the K rows of the table)"], queries=nq, cases=ncases, witness="c16hashes",
                check_message=(problems[0][0] if problems else "content_hashes reports exactly the hashes of the entries held"))


def q_c16_open_guard(bodies):
    name = "c16_open_guard"
    src = _src("src/store/fs.rs")
    sf = _struct_fields(src, "Store")
    fn = {}
    for f in ("open_replica", "load_replica_info", "close_replica", "remove_replica"):
        h = _find(bodies, r"^store::fs::<impl at [^>]*>::%s$" % f, r"^_1: &mut store::fs::Store")
        if len(h) != 1:
            return dict(name=name, property="C16", verdict="inconclusive", detail="%s not found uniquely (%d)" % (f, len(h)), functions=[])
        fn[f] = h[0]
    if not sf or "open_replicas" not in sf:
        return dict(name=name, property="C16", verdict="inconclusive", detail="Store layout: %s" % sf, functions=[])
    problems, nq, ncases, funcs = [], 0, 0, set()

    def setup():
        smt = Smt()
        for f, n in (("C_Ok", 1), ("C_Err", 1), ("C_Some", 1), ("C_None", 0), ("C_Continue", 1), ("C_Break", 1), ("discr", 1), ("cap_id", 1), ("C_info", 1), ("C_guard", 1), ("C_tuple2", 2), ("cap_of", 2)):
            smt.fun(f, n)
        for c in ("STORE", "NS", "TBL", "TERR", "GERR", "CAPERR", "ROW", "UNIT", "MODRES"):
            smt.decls.append("(declare-const %s V)" % c)
        for b in ("tables_ok", "row_present", "get_ok", "cap_ok", "is_open"):
            smt.decls.append("(declare-const %s Bool)" % b)
        SET = "(addr STORE %s)"
        models = std_models()

        def log(kind):
            def f(ex, v, env):
                env["__log"] = env.get("__log", ()) + ((kind,) + tuple(_deep(ex, env, x) if not is_addr(x) else x for x in v),)
                if kind == "contains":
                    return [("is_open", "(b2v true)"), ("(not is_open)", "(b2v false)")]
                if kind == "modify":
                    return "MODRES"
                return "(b2v true)"
            f.wants_env = True
            return f
        models.update({
            r"^store::fs::Store::tables$": lambda ex, v: [("tables_ok", "(C_Ok (ref TBL))"), ("(not tables_ok)", "(C_Err TERR)")],
            r"^keys::NamespaceId::as_bytes$": lambda ex, v: "(ref (bytes_of %s))" % mk_deref(v[0]),
            r" as ReadableTable<.*>>::get::<": lambda ex, v: [("(and get_ok row_present)", "(C_Ok (C_Some (C_guard ROW)))"), ("(and get_ok (not row_present))", "(C_Ok C_None)"), ("(not get_ok)", "(C_Err GERR)")],
            r"^AccessGuard::<'_, .*>::value$": lambda ex, v: "(C_tuple2 (fld_0 ROW) (fld_1 ROW))",
            r"^sync::Capability::from_raw$": lambda ex, v: [("cap_ok", "(C_Ok (cap_of %s %s))" % (v[0], v[1])), ("(not cap_ok)", "(C_Err CAPERR)")],
            r"^sync::ReplicaInfo::new$": lambda ex, v: "(C_info %s)" % v[0],
            r"^sync::Capability::id$": lambda ex, v: "(cap_id %s)" % mk_deref(v[0]),
            r"^HashSet::<keys::NamespaceId>::insert$": log("insert"),
            r"^HashSet::<keys::NamespaceId>::remove::<": log("remove"),
            r"^HashSet::<keys::NamespaceId>::contains::<": log("contains"),
            r"^store::fs::Store::modify::<": log("modify"),
            r"^StoreInstance::<'_>::new$": lambda ex, v: "(mk_instance %s %s)" % (v[0], v[1]),
            r"^sync::Replica::<'_>::new$|^sync::Replica::<'_, .*>::new$": lambda ex, v: "(mk_replica %s %s)" % (v[0], v[1]),
            r"^Box::<sync::ReplicaInfo>::new$": lambda ex, v: v[0],
            r"^<StorageError as Into<anyhow::Error>>::into$|^<.* as From<.*>>::from$": lambda ex, v: v[0],
            r"anyhow::__private::format_err$|anyhow::__private::must_use$|Arguments::<'_>::from_str$|^anyhow::Error::msg::<": lambda ex, v: "UNIT",
        })
        for f, n in (("bytes_of", 1), ("mk_instance", 2), ("mk_replica", 2), ("fld_0", 1), ("fld_1", 1)):
            smt.fun(f, n)
        return smt, models
    OPENSET = None
    for which in ("load_replica_info", "open_replica", "close_replica", "remove_replica"):
        smt, models = setup()
        inline = [(r"^store::fs::Store::load_replica_info$", r"^store::fs::<impl at [^>]*>::load_replica_info$", r"^_1: &mut store::fs::Store")] if which == "open_replica" else []
        ex = PMExec(bodies, smt, models=models, inline=inline, enums={"OpenError": ["NotFound", "Other"]}, max_paths=500)
        OPENSET = "(addr STORE %s)" % ex.ksym(str(sf.index("open_replicas")))
        try:
            args = ["STORE", "NS"] if which == "close_replica" else ["STORE", "(ref NS)"]
            paths = ex.run(fn[which], args, feasibility=False)
        except (Inconclusive, ValueError, AssertionError, KeyError, IndexError, RecursionError) as e:
            problems.append(("%s can be followed" % which, "inconclusive", "%r" % (e,)))
            continue
        funcs |= ex.inlined
        for pc, ret, calls, env in paths:
            nq += 1
            v, _ = solve(smt.script("(and true %s)" % " ".join(pc)))
            if v == "unsat":
                continue
            ncases += 1
            log_ = env.get("__log", ())
            tag = "%s path=%s" % (which, pc[:4])
            setops = [l for l in log_ if l[0] in ("insert", "remove")]
            if which in ("load_replica_info", "open_replica"):
                ok_ret = ret.startswith("(C_Ok ")
                good = all(c in pc for c in ("tables_ok", "(and get_ok row_present)", "cap_ok"))
                if ok_ret != good:
                    problems.append(("a document is handed out exactly when its capability row exists and parses", "sat", tag + " ret=%s" % ret[:60]))
                    continue
                if ok_ret:
                    want = ("insert", OPENSET, "(cap_id (cap_of (fld_0 ROW) (fld_1 ROW)))")
                    if list(setops) != [want]:
                        problems.append(("every way of opening a document marks it as open in the store (so that it cannot be removed while it is in use)", "sat", tag + " set operations=%s" % (setops,)))
                elif setops:
                    problems.append(("a failed open marks nothing as open", "sat", tag + " set operations=%s" % (setops,)))
            elif which == "close_replica":
                if list(setops) != [("remove", OPENSET, "NS")]:
                    problems.append(("closing a document unmarks exactly that document", "sat", tag + " set operations=%s" % (setops,)))
            else:
                cont = [l for l in log_ if l[0] == "contains"]
                mods = [l for l in log_ if l[0] == "modify"]
                order = [l[0] for l in log_ if l[0] in ("contains", "modify")]
                if [c[1:] for c in cont] != [(OPENSET, "NS")] or order[:1] != ["contains"]:
                    problems.append(("remove_replica first asks whether the document it is about to remove is open", "sat", tag + " log=%s" % (log_,)))
                    continue
                if "is_open" in pc and (mods or not ret.startswith("(C_Err")):
                    problems.append(("removing a document is refused while it is open, and nothing is touched", "sat", tag + " ret=%s" % ret[:60]))
                if "(not is_open)" in pc and len(mods) != 1:
                    problems.append(("a closed document is removed (one transaction)", "sat", tag))
                if setops:
                    problems.append(("remove_replica does not change which documents are open", "sat", tag))
    problems.sort(key=lambda p: p[1] == "inconclusive")
    return dict(name=name, property="C16", verdict=_verdict(problems), detail="feasible paths=%d; problems: %s" % (ncases, problems[:4] or "none"),
                functions=sorted(funcs) + ["std HashSet insert / remove / contains, redb Table::get (modelled)"], queries=nq, cases=ncases, witness="c16open",
                check_message=(problems[0][0] if problems else "open documents are marked, and marked documents are not removed"))


QUERIES_C16 = [q_c16_content_hashes, q_c16_open_guard]
