"""E3 query for C05 ("the two physical access paths give the same set") and C08: the transaction closure of
`StoreInstance::entry_put`, executed (PMExec):
c05_put_index — on every path that reports success the entry is written to the records table under
  (namespace, author, key) of ITS OWN identifier with its own (timestamp, both signatures, length, content hash), and to the by-key
  index under (namespace, key, author) of the same identifier — both rows, each exactly once, nothing else in these two tables; a
  failing write is reported (no success with a missing row).  The head row is C13's (c13_head_update)."""
import re

from mirsmt import Smt, solve, mk_deref, split_sexpr_args
from stdmodels import PMExec, Inconclusive, std_models, _deep
from queries_c05 import _find
from queries_c02 import _tables_fields


def q_c05_put_index(bodies):
    name = "c05_put_index"
    hits = _find(bodies, r"::entry_put::\{closure#0\}$", r"&mut Tables<'_> -> Result<\(\), anyhow::Error>")
    fields = _tables_fields()
    if len(hits) != 1 or not {"records", "records_by_key", "latest_per_author"} <= set(fields):
        return dict(name=name, property="C05", verdict="inconclusive", detail="entry_put closure / Tables not found (%d)" % len(hits), functions=[])
    body = hits[0]
    cap = {}
    for var, expr in body.debug.items():
        m = re.match(r"^\(\*\(_1\.(\d+): ", expr)
        if m:
            cap[var] = int(m.group(1))
    if "id" not in cap or "e" not in cap:
        return dict(name=name, property="C05", verdict="inconclusive", detail="captures not recognised: %s" % body.debug, functions=[body.name])
    smt = Smt()
    for f, n in (("C_Ok", 1), ("C_Err", 1), ("C_Some", 1), ("C_Continue", 1), ("C_Break", 1), ("discr", 1), ("ns_of", 1), ("author_of", 1), ("key_of", 1), ("bytes", 1), ("id_of", 1), ("ts_of", 1),
                 ("sig_of", 1), ("nssig", 1), ("asig", 1), ("len_of", 1), ("hash_of", 1), ("conv", 1), ("guard_val", 1), ("C_closure2", 2), ("entry_of", 1)):
        smt.fun(f, n)
    smt.fun("C_None", 0)
    for c in ("ID", "E", "TBL", "UNIT", "OLDROW", "WERR", "GERR"):
        smt.decls.append("(declare-const %s V)" % c)
    for b in ("w0", "w1", "w2", "get_ok", "head_present", "newer"):
        smt.decls.append("(declare-const %s Bool)" % b)
    models = {}

    def m_insert(ex, v, env):
        n = len([l for l in env.get("__log", ()) if l[0] == "insert"])
        if n > 2:
            raise Inconclusive("more than three table writes")
        env["__log"] = env.get("__log", ()) + (("insert", _deep(ex, env, v[0]) if False else v[0], tuple(_deep(ex, env, x) for x in (split_sexpr_args(v[1]) if re.match(r"^\((mk_tuple\d*|C_tuple\d*) ", v[1]) else [v[1]])),
                                                tuple(_deep(ex, env, x) for x in (split_sexpr_args(v[2]) if re.match(r"^\((mk_tuple\d*|C_tuple\d*) ", v[2]) else [v[2]]))),)
        return [("w%d" % n, "(C_Ok C_None)"), ("(not w%d)" % n, "(C_Err WERR)")]
    m_insert.wants_env = True

    def m_get(ex, v, env):
        env["__log"] = env.get("__log", ()) + (("get", v[0]),)
        return [("(and get_ok head_present)", "(C_Ok (C_Some OLDROW))"), ("(and get_ok (not head_present))", "(C_Ok C_None)"), ("(not get_ok)", "(C_Err GERR)")]
    m_get.wants_env = True
    models.update({
        r"^Table::<.*>::insert::<": m_insert,
        r"^<Table<.*> as ReadableTable<.*>>::get::<|^Table::<.*>::get::<": m_get,
        r"^AccessGuard::<.*>::value$": lambda ex, v: "(guard_val %s)" % mk_deref(v[0]),
        r"^<sync::SignedEntry as Deref>::deref$": lambda ex, v: "(ref (entry_of %s))" % mk_deref(v[0]),
        r"^sync::Entry::id$|^sync::SignedEntry::id$": lambda ex, v: "(ref (id_of %s))" % mk_deref(v[0]),
        r"^RecordIdentifier::namespace$": lambda ex, v: "(ns_of %s)" % mk_deref(v[0]),
        r"^RecordIdentifier::author$": lambda ex, v: "(author_of %s)" % mk_deref(v[0]),
        r"^RecordIdentifier::key$": lambda ex, v: "(key_of %s)" % mk_deref(v[0]),
        r"^keys::NamespaceId::to_bytes$|^keys::AuthorId::to_bytes$|^Signature::to_bytes$|^iroh_blobs::Hash::as_bytes$": lambda ex, v: "(bytes %s)" % mk_deref(v[0]),
        r"^sync::SignedEntry::timestamp$": lambda ex, v: "(ts_of %s)" % mk_deref(v[0]),
        r"^sync::SignedEntry::signature$": lambda ex, v: "(ref (sig_of %s))" % mk_deref(v[0]),
        r"^EntrySignature::namespace$": lambda ex, v: "(ref (nssig %s))" % mk_deref(v[0]),
        r"^EntrySignature::author$": lambda ex, v: "(ref (asig %s))" % mk_deref(v[0]),
        r"^sync::SignedEntry::content_len$": lambda ex, v: "(len_of %s)" % mk_deref(v[0]),
        r"^sync::SignedEntry::content_hash$": lambda ex, v: "(hash_of %s)" % mk_deref(v[0]),
        r" as FromResidual<.*>>::from_residual$": lambda ex, v: "(C_Err (conv %s))" % (split_sexpr_args(v[0])[0] if v[0].startswith("(C_Err ") else v[0]),
    })
    for k, f in std_models(opaque_ok=True).items():
        models.setdefault(k, f)

    class PExec(PMExec):
        def rvalue(self, env, rv):
            if re.match(r"^(Ge|Gt|Le|Lt)\(", rv.strip()):
                return "(b2v newer)"
            return super().rvalue(env, rv)
    ex = PExec(bodies, smt, models=models, max_paths=400)
    ncap = max(cap.values()) + 1
    capvals = ["UNIT"] * ncap
    capvals[cap["id"]] = "(ref ID)"
    capvals[cap["e"]] = "(ref E)"
    smt.fun("C_cap", ncap)
    problems, nq, ncases, succ = [], 0, 0, 0
    try:
        paths = ex.run(body, ["(C_cap %s)" % " ".join(capvals), "(ref TBL)"], feasibility=False)
    except (Inconclusive, ValueError, AssertionError, KeyError, IndexError, RecursionError) as e:
        return dict(name=name, property="C05", verdict="inconclusive", detail="%r" % (e,), functions=[body.name])
    REC = "(addr (ref TBL) %s)" % ex.ksym(str(fields.index("records")))
    BYK = "(addr (ref TBL) %s)" % ex.ksym(str(fields.index("records_by_key")))
    HEAD = "(addr (ref TBL) %s)" % ex.ksym(str(fields.index("latest_per_author")))
    # the identifier the closure captured IS the entry's own (entry_put: `let id = e.id()`): both spellings name the same thing
    def norm(t):
        return t.replace("(id_of E)", "ID").replace("(id_of (entry_of E))", "ID").replace("(entry_of E)", "E")
    for pc, ret, calls, env in paths:
        nq += 1
        v, _ = solve(smt.script("(and true %s)" % " ".join(pc)))
        if v == "unsat":
            continue
        ncases += 1
        log = env.get("__log", ())
        ins = [l for l in log if l[0] == "insert"]
        tag = "path=%s" % pc[:5]
        if not ret.startswith("(C_Ok"):
            continue
        succ += 1
        flat = " ".join(pc)
        if any(("(not w%d)" % i) in flat for i in range(3)) or "(not get_ok)" in flat:
            problems.append(("a failing table access is reported, not swallowed", "sat", tag))
            continue
        rec = [l for l in ins if l[1] == REC]
        byk = [l for l in ins if l[1] == BYK]
        other = [l for l in ins if l[1] not in (REC, BYK, HEAD)]
        want_rec_key = ("(bytes (ns_of ID))", "(bytes (author_of ID))", "(key_of ID)")
        want_rec_val = ("(ts_of E)", "(bytes (nssig (sig_of E)))", "(bytes (asig (sig_of E)))", "(len_of E)", "(bytes (hash_of E))")
        want_byk_key = ("(bytes (ns_of ID))", "(key_of ID)", "(bytes (author_of ID))")
        got_rec = [(tuple(norm(x) for x in l[2]), tuple(norm(x) for x in l[3])) for l in rec]
        got_byk = [tuple(norm(x) for x in l[2]) for l in byk]
        if other:
            problems.append(("writing an entry touches the records table, the by-key index and the head table only", "sat", tag + " %s" % [l[1][:50] for l in other]))
        elif got_rec != [(want_rec_key, want_rec_val)]:
            problems.append(("the entry is written to the records table once, under (namespace, author, key) of its own identifier, with its own timestamp, signatures, length and content hash", "sat", tag + " records writes=%s" % (got_rec,)))
        elif got_byk != [want_byk_key]:
            problems.append(("every entry written gets its by-key index row (namespace, key, author) of the same identifier, exactly once", "sat", tag + " by-key writes=%s" % (got_byk,)))
    if succ == 0:
        problems.append(("a success path exists", "inconclusive", "%d feasible paths" % ncases))
    verdict = "violated" if any(p[1] == "sat" for p in problems) else ("inconclusive" if problems else "holds")
    return dict(name=name, property="C05", verdict=verdict, detail="feasible paths=%d (successful %d); problems: %s" % (ncases, succ, problems[:3] or "none"),
                functions=[body.name, "redb Table::insert / get (answer Ok or an error), accessors of SignedEntry / RecordIdentifier (uninterpreted projections)"],
                queries=nq, cases=ncases, witness="c05,c08range",
                check_message=(problems[0][0] if problems else "an entry is written to both access paths"))


QUERIES_C05PUT = [q_c05_put_index]
