"""E3 query over the REAL `Replica::insert_entry` coroutine (src/sync.rs) — the tail shared by
`Replica::insert`, `delete_prefix` and `insert_remote_entry` (C02, C03, C07, C12 direct path).

Executed with Exec2 from the coroutine's unresumed state to the first suspension / completion.
`validate_entry` and `ranger::Store::put` are NOT executed here (they have their own Kani harnesses /
queries): they answer symbolically (Ok | Err, Inserted{removed} | NotInserted | storage error) and the
query decides what the glue does with those answers, for both origins:

  * the entry is validated first, against the replica's namespace, the store's key cache, the current
    time and the given origin; a validation failure returns that failure, nothing is stored, nobody is told;
  * a validated entry ALWAYS reaches `put` (exactly once, the entry itself) — nothing else decides
    admission: no capability test, no shortcut, no second write;
  * `NotInserted` => Err(NewerEntryExists) and no event; a storage error => that error and no event;
  * `Inserted{removed}` => exactly one event is handed to `Subscribers::send`, LocalInsert{namespace, entry}
    for a local origin, RemoteInsert{namespace, entry, from, should_download, remote_content_status} with
    should_download = policy.matches(entry.entry()) of the document's stored policy (default when unset),
    and the result is Ok(removed).
"""
import re

from mirsmt import Smt, solve, mk_deref, split_sexpr_args
from exec2 import Exec2, is_addr
from queries_c05 import _find, _enum_variants, _src


def _tracing_off():
    f = lambda ex, v: "(b2v false)"  # noqa
    t = lambda ex, v: "(b2v true)"  # noqa
    return {
        r"PartialOrd<.*LevelFilter>>::le$": f,
        r"Interest::is_never$": t,
        r"__macro_support::__is_enabled$": f,
        r"dispatcher::has_been_set$": t,
        r"Log>::enabled$": f,
        r"^tracing::Level::as_log$|log::max_level$|LevelFilter::current$": lambda ex, v: "LOGLVL",
        r"<log::Level as PartialOrd<log::LevelFilter>>::le$": f,
        r"PartialOrd<.*>>::le$": f,
    }


def q_insert_entry(bodies):
    name = "insert_entry_glue"
    hits = _find(bodies, r"^sync::<impl at [^>]*>::insert_entry::\{closure#0\}$", r"Poll<Result<usize, InsertError>>")
    sy = _src("src/sync.rs")
    origin = _enum_variants(sy, "InsertOrigin")
    event = _enum_variants(sy, "Event")
    outcome = _enum_variants(_src("src/ranger.rs"), "InsertOutcome")
    props = ["C02", "C03", "C07", "C12"]
    if len(hits) != 1 or not origin or not event or not outcome:
        return dict(name=name, property="C12", properties=props, verdict="inconclusive", detail="insert_entry coroutine / enum layouts not found (%d)" % len(hits), functions=[])
    body = hits[0]
    ov = dict(origin)
    evd = dict(event)
    if [v for v, _ in origin] != ["Local", "Sync"] or ov["Sync"] != ["from", "remote_content_status"] or not {"Inserted", "NotInserted"} <= set(v for v, _ in outcome) or dict(outcome)["Inserted"] != ["removed"] or any(f for v, f in outcome if v != "Inserted") \
            or evd.get("LocalInsert") != ["namespace", "entry"] or evd.get("RemoteInsert") != ["namespace", "entry", "from", "should_download", "remote_content_status"]:
        return dict(name=name, property="C12", properties=props, verdict="inconclusive", detail="enum layouts changed: %s %s %s" % (origin, outcome, event), functions=[body.name])
    enums = {"InsertOrigin": ["Local", "Sync"], "InsertOutcome": [v for v, _ in outcome], "Event": [v for v, _ in event], "Poll": ["Ready", "Pending"]}
    problems, nq, ncases = [], 0, 0
    funcs = set()
    for org in ("Local", "Sync"):
        smt = Smt()
        for c in ("CORO", "CX", "REPLICA", "ENTRY", "FROM", "STATUS", "NSID", "NOW", "VERR", "REMOVED", "SERR", "POLICY", "PERR", "LOGLVL", "UNIT", "DEFAULTPOLICY"):
            smt.decls.append("(declare-const %s V)" % c)
        for f, n in (("C_Ok", 1), ("C_Err", 1), ("C_Continue", 1), ("C_Break", 1), ("C_Some", 1), ("C_None", 0), ("discr", 1), ("policy_matches", 2), ("entry_of", 1),
                     ("CE_InsertOrigin_Local", 0), ("CE_InsertOrigin_Sync", 2), ("CE_InsertOutcome_Inserted", 1), ("CE_InsertOutcome_NotInserted", 0),
                     ("CE_Poll_Ready", 1), ("CE_Poll_Pending", 0), ("C_sendfut", 2)):
            smt.fun(f, n)
        smt.decls.append("(declare-const valid Bool)")
        smt.decls.append("(declare-const put_ok Bool)")
        smt.decls.append("(declare-const inserted Bool)")
        smt.decls.append("(declare-const policy_ok Bool)")
        st = {"sent": []}

        def m_validate(ex, v, env):
            st.setdefault("validate_args", []).append(list(v))
            return [("valid", "(C_Ok UNIT)"), ("(not valid)", "(C_Err VERR)")]
        m_validate.wants_env = True

        def m_put(ex, v, env):
            env["__puts"] = env.get("__puts", ()) + ((v[0], v[1]),)
            # every variant other than `Inserted` (NotInserted, and any field-less variant added later) means "not stored"
            others = [vn for vn, _ in outcome if vn != "Inserted"]
            forks = [("(and put_ok inserted)", "(C_Ok (CE_InsertOutcome_Inserted REMOVED))"), ("(not put_ok)", "(C_Err SERR)")]
            for k, vn in enumerate(others):
                ex.smt.fun("CE_InsertOutcome_%s" % vn, 0)
                if len(others) == 1:
                    forks.append(("(and put_ok (not inserted))", "(C_Ok CE_InsertOutcome_%s)" % vn))
                else:
                    if "(declare-const which_%d Bool)" % k not in ex.smt.decls:
                        ex.smt.decls.append("(declare-const which_%d Bool)" % k)
                    forks.append(("(and put_ok (not inserted) which_%d)" % k, "(C_Ok CE_InsertOutcome_%s)" % vn))
            return forks
        m_put.wants_env = True

        def m_branch(ex, v):
            x = v[0]
            if x.startswith("(C_Ok "):
                return "(C_Continue %s)" % split_sexpr_args(x)[0]
            if x.startswith("(C_Err "):
                return "(C_Break %s)" % x
            # an opaque Result/Option (a call this query does not know): both outcomes
            ok = "(= (discr %s) k_int_0)" % x
            ex._konst("int_0")
            return [(ok, "(C_Continue (unwrap_ok %s))" % x), ("(not %s)" % ok, "(C_Break (C_Err (unwrap_err %s)))" % x)]

        def m_from_residual(ex, v):
            # Err(e) -> Err(From::from(e)): the conversion is the identity on the error's identity
            if v[0].startswith("(C_Err "):
                return "(C_Err (conv %s))" % split_sexpr_args(v[0])[0]
            return "(C_Err (conv %s))" % v[0]
        smt.fun("conv", 1)
        smt.fun("unwrap_ok", 1)
        smt.fun("unwrap_err", 1)

        def m_map_err(ex, v):
            if v[0].startswith("(C_Ok "):
                return v[0]
            if v[0].startswith("(C_Err "):
                return "(C_Err (store_err %s))" % split_sexpr_args(v[0])[0]
            return v[0]
        smt.fun("store_err", 1)

        def m_get_policy(ex, v, env):
            env["__policy_ns"] = env.get("__policy_ns", ()) + (v[1],)
            return [("policy_ok", "(C_Ok POLICY)"), ("(not policy_ok)", "(C_Err PERR)")]
        m_get_policy.wants_env = True

        def m_unwrap_or_default(ex, v):
            if v[0].startswith("(C_Ok "):
                return split_sexpr_args(v[0])[0]
            if v[0].startswith("(C_Err "):
                return "DEFAULTPOLICY"
            raise ValueError("unwrap_or_default of %s" % v[0][:60])

        def m_send(ex, v, env):
            env["__sent"] = env.get("__sent", ()) + ((v[0], v[1]),)
            return "(C_sendfut %s %s)" % (v[0], v[1])
        m_send.wants_env = True

        def deep(ex, env, t):
            for _ in range(8):
                if is_addr(t):
                    t = ex.load(env, t, whole=False)
                elif t.startswith("(ref "):
                    t = mk_deref(t)
                else:
                    break
            return t

        def m_clone(ex, v, env):
            return deep(ex, env, v[0])
        m_clone.wants_env = True

        def m_entry_of(ex, v, env):
            return "(ref (entry_of %s))" % deep(ex, env, v[0])
        m_entry_of.wants_env = True

        def m_matches(ex, v, env):
            return "(policy_matches %s %s)" % (deep(ex, env, v[0]), deep(ex, env, v[1]))
        m_matches.wants_env = True

        models = _tracing_off()
        models.update({
            r"^validate_entry::<": m_validate,
            r"ranger::Store<sync::SignedEntry>>::put$": m_put,
            r" as Try>::branch$": m_branch,
            r" as FromResidual<.*>>::from_residual$": m_from_residual,
            r"^Result::<InsertOutcome, anyhow::Error>::map_err::<": m_map_err,
            r"get_download_policy$": m_get_policy,
            r"^Result::<DownloadPolicy, anyhow::Error>::unwrap_or_default$": m_unwrap_or_default,
            r"^sync::Subscribers::send$": m_send,
            r"^<sync::SignedEntry as Clone>::clone$": m_clone,
            r"^sync::SignedEntry::entry$": m_entry_of,
            r"^DownloadPolicy::matches$": m_matches,
            r"^system_time_now$": lambda ex, v: "NOW",
            r"^sync::Replica::<'_, I>::id$": lambda ex, v: "NSID",
            r"^Pin::<&mut .*>::new_unchecked$": lambda ex, v: v[0],
            r"as Future>::poll$": lambda ex, v: "CE_Poll_Pending",   # stop at the first suspension: the event has been handed over by then
        })
        ex = Exec2(bodies, smt, models=models, enums=enums, int_ops=False, max_paths=4000)
        org_term = "CE_InsertOrigin_Local" if org == "Local" else "(CE_InsertOrigin_Sync FROM STATUS)"
        # unresumed coroutine: upvars 0 = &mut Replica, 1 = entry, 2 = origin (order of the fn's parameters)
        heap0 = {("CORO", "0"): "REPLICA", ("CORO", "1"): "ENTRY", ("CORO", "2"): org_term}
        smt.fun("C_pin", 1)
        try:
            res = []
            env0 = {"__heap": heap0, "_1": "(C_pin CORO)", "_2": "CX"}
            # discriminant of the coroutine state: unresumed
            ex.discr_of["(deref CORO)"] = 0
            ex._walk(body, "bb0", env0, [], [], res, 0)
        except (ValueError, AssertionError, KeyError, IndexError, RecursionError) as e:
            return dict(name=name, property="C12", properties=props, verdict="inconclusive", detail="origin=%s: %r" % (org, e), functions=[body.name])
        funcs |= ex.inlined
        for pc, ret, calls, env in res:
            pcs = "(and true %s)" % " ".join(pc)
            nq += 1
            v, _ = solve(smt.script(pcs))
            if v == "unsat":
                continue
            ncases += 1
            tag = "origin=%s path=%s" % (org, [c for c in pc if c in ("valid", "(not valid)", "put_ok", "(not put_ok)", "inserted", "(not inserted)") or "put_ok" in c or "policy_ok" in c])
            puts = env.get("__puts", ())
            sent = env.get("__sent", ())
            vargs = st.get("validate_args", [])
            heap = env.get("__heap", {})

            def must(cond_desc, formula):
                """formula must be implied by the path condition"""
                nonlocal nq
                nq += 1
                v2, _ = solve(smt.script("(and %s (not %s))" % (pcs, formula)))
                if v2 != "unsat":
                    problems.append((cond_desc, v2, tag))
                    return False
                return True

            # classification of the path by the symbolic answers it consumed
            is_valid = "valid" in pc
            is_invalid = "(not valid)" in pc
            stored_call = len(puts) > 0
            other_writes = [c[0] for c in calls if re.search(r"(remove_prefix_filtered|entry_put|entry_remove|::insert\b|import_namespace|set_download_policy|remove_replica)", c[0])]
            if other_writes:
                problems.append(("insert_entry changes the store only through put", "sat", tag + " calls=%s" % other_writes[:2]))
                continue
            if not is_valid and not is_invalid:
                problems.append(("every entry is validated before anything else happens", "sat", tag))
                continue
            if is_invalid:
                if stored_call or sent:
                    problems.append(("an entry that fails validation is neither stored nor announced", "sat", tag))
                    continue
                if not (ret.startswith("(CE_Poll_Ready (C_Err ") and "VERR" in ret):
                    problems.append(("an entry that fails validation is reported as that validation failure", "sat", tag + " ret=%s" % ret[:80]))
                continue
            # valid entry
            if len(puts) != 1:
                problems.append(("a validated entry is handed to put exactly once (nothing else decides admission)", "sat", tag + " puts=%d ret=%s" % (len(puts), ret[:60])))
                continue
            if puts[0][1] != "ENTRY":
                problems.append(("the entry handed to put is the validated entry", "sat", tag + " put=%s" % puts[0][1][:60]))
                continue
            pc_s = " ".join(pc)
            got_inserted = "(and put_ok inserted)" in pc
            got_not = any(c.startswith("(and put_ok (not inserted)") for c in pc)
            got_err = "(not put_ok)" in pc
            if got_err:
                if sent or not (ret.startswith("(CE_Poll_Ready (C_Err ") and "SERR" in ret):
                    problems.append(("a storage error is reported and nothing is announced", "sat", tag + " ret=%s" % ret[:80]))
                continue
            if got_not:
                if sent or not (ret.startswith("(CE_Poll_Ready (C_Err ") and "NewerEntryExists" in ret):
                    problems.append(("a superseded entry is reported as NewerEntryExists and nothing is announced", "sat", tag + " ret=%s" % ret[:80]))
                continue
            if not got_inserted:
                problems.append(("the outcome of put decides the result", "sat", tag))
                continue
            if len(sent) != 1:
                problems.append(("an applied entry is announced exactly once", "sat", tag + " events=%d" % len(sent)))
                continue
            evt = sent[0][1]
            if org == "Local":
                want = "(CE_Event_LocalInsert NSID ENTRY)"
                if evt != want:
                    problems.append(("a locally authored entry is announced as LocalInsert{namespace, entry}", "sat", tag + " event=%s" % evt[:100]))
                    continue
            else:
                if not evt.startswith("(CE_Event_RemoteInsert "):
                    problems.append(("a remote entry is announced as RemoteInsert", "sat", tag + " event=%s" % evt[:100]))
                    continue
                f = split_sexpr_args(evt)
                if len(f) != 5 or f[0] != "NSID" or f[1] != "ENTRY" or f[2] != "FROM" or f[4] != "STATUS":
                    problems.append(("RemoteInsert carries the replica's namespace, the entry, the providing peer and its content status", "sat", tag + " event=%s" % evt[:140]))
                    continue
                pol = "(ite policy_ok POLICY DEFAULTPOLICY)"
                if not must("should_download is the stored policy's decision for the entry (default policy when none is stored)",
                            "(= %s (policy_matches %s (entry_of ENTRY)))" % (f[3], pol)):
                    continue
                pns = env.get("__policy_ns", ())
                if len(pns) != 1 or deep(ex, env, pns[0]) != "NSID":
                    problems.append(("the download policy consulted is the document's own", "sat", tag + " ns=%s" % (pns,)))
                    continue
            # the coroutine is suspended on the send future, and completes with Ok(removed): the value to return is stored
            if ret != "CE_Poll_Pending":
                problems.append(("the insert completes only after the event was handed to the subscribers", "sat", tag + " ret=%s" % ret[:60]))
                continue
            stored_removed = [k[1] for (k, val) in heap.items() if k[0] == "CORO" and val == "REMOVED"]
            st.setdefault("removed_keys", set()).update(stored_removed)
            if not stored_removed:
                problems.append(("the result of a successful insert is the number of entries put removed", "sat", tag))
        # validate_entry arguments: (now, store, namespace, entry, origin)
        for a in st.get("validate_args", []):
            if len(a) != 5 or a[0] != "NOW" or a[2] != "NSID":
                problems.append(("validation uses the current time and the replica's namespace", "sat", "origin=%s args=%s" % (org, [x[:30] for x in a])))
        # resumption: from the suspended state the coroutine returns Ok(removed) once the send completes, and does nothing else
        rem_keys = st.get("removed_keys", set())
        if len(rem_keys) == 1:
            ex2 = Exec2(bodies, smt, models=dict(models, **{r"as Future>::poll$": lambda ex, v: "(CE_Poll_Ready UNIT)"}), enums=enums, max_paths=400)
            ex2.discr_of["(deref CORO)"] = 3
            res2 = []
            try:
                ex2._walk(body, "bb0", {"__heap": {("CORO", list(rem_keys)[0]): "REMOVED"}, "_1": "(C_pin CORO)", "_2": "CX"}, [], [], res2, 0)
            except (ValueError, AssertionError, KeyError, IndexError, RecursionError) as e:
                problems.append(("the suspended insert can be resumed", "inconclusive", "origin=%s: %r" % (org, e)))
                res2 = []
            for pc, ret, calls, env in res2:
                ncases += 1
                if env.get("__puts") or env.get("__sent") or ret != "(CE_Poll_Ready (C_Ok REMOVED))":
                    problems.append(("once the subscribers have the event the insert returns Ok(removed) and does nothing else", "sat", "origin=%s resume ret=%s" % (org, ret[:60])))
        elif ncases:
            problems.append(("the number of removed entries is kept across the suspension", "inconclusive", "origin=%s keys=%s" % (org, rem_keys)))
    verdict = "holds"
    if any(p[1] == "inconclusive" for p in problems):
        verdict = "inconclusive"
    if any(p[1] != "inconclusive" for p in problems):
        verdict = "violated"
    problems.sort(key=lambda p: p[1] == "inconclusive")  # a confirmed problem names the check
    return dict(name=name, property="C12", properties=props, verdict=verdict, detail="both origins; feasible paths=%d; problems: %s" % (ncases, problems[:4] or "none"),
                functions=sorted(funcs) + ["validate_entry, ranger::Store::put, Store::get_download_policy, DownloadPolicy::matches, Subscribers::send (symbolic answers; decided by their own harnesses/queries)"],
                queries=nq, cases=ncases, witness="insglue",
                check_message=(problems[0][0] if problems else "insert_entry: validate, then put, then announce"))


QUERIES_INS = [q_insert_entry]
