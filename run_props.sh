#!/bin/sh
# usage: ./run_props.sh <tier> C02 C03 ...   (development helper: runs the checks one after another, logs to .work/run_<prop>.out)
tier=$1; shift
for p in "$@"; do
  ./check $p --tier $tier > .work/run_$p.out 2>&1
  echo "$p rc=$?" >> .work/run_props.log
done
